From Coq Require Import List Arith Lia Bool.
Import ListNotations.
Require Import RA RAL.


Lemma nal_two l h h' d : alive d = false -> h <> h' -> alive (nth h l d) = true -> alive (nth h' l d) = true -> nal l >= 2.
Proof.
  intros Hd Hne Hh Hh'. pose proof (nal_alive l h d Hh Hd). destruct (Nat.eq_dec (nal l) 1) as [E|E]; [|lia].
  exfalso. apply Hne. eapply nal_one; eauto.
Qed.
Lemma nal_zero_dead l h d : nal l = 0 -> alive d = false -> alive (nth h l d) = false.
Proof. intros Hz Hd. destruct (alive (nth h l d)) eqn:E; auto. pose proof (nal_alive l h d E Hd). lia. Qed.
Lemma nth_app_old {A} (l : list A) x j d : j < length l -> nth j (l ++ [x]) d = nth j l d.
Proof. intros. now rewrite app_nth1. Qed.
Lemma nth_app_new {A} (l : list A) x d : nth (length l) (l ++ [x]) d = x.
Proof. rewrite app_nth2 by lia. now rewrite Nat.sub_diag. Qed.

Definition own s h := owner (hnd_at s h).

Record Inv (s : st) : Prop := {
  i_err : err s = false;
  i_ms : length (ms s) >= 1;
  i_cnt : nal (hds s) > 0 -> freed s = false /\ mval (msg_at s (top s)) + 1 = nal (hds s);
  i_seen : forall t, seen (ths s t) <= top s;
  i_K : forall h j, alive (hnd_at s h) = true -> seen (ths s (own s h)) <= j -> j < top s -> mval (msg_at s j) >= 1;
  i_W : forall a h, In a (accs s) -> akd a = AW -> alive (hnd_at s h) = true -> aep a <= clk (ths s (own s h)) (atid a);
  i_R : forall a, In a (accs s) -> akd a = AR ->
        (alive (hnd_at s (ahnd a)) = true -> aep a <= clk (ths s (own s (ahnd a))) (atid a)) /\
        (alive (hnd_at s (ahnd a)) = false -> aep a <= mview (msg_at s (top s)) (atid a));
  i_F : forall a, In a (accs s) -> akd a = AF -> freed s = true;
  i_H : forall a, In a (accs s) -> ahnd a < length (hds s);
}.

Lemma alive_lt s h : alive (hnd_at s h) = true -> h < length (hds s).
Proof. unfold hnd_at. intros H. destruct (lt_dec h (length (hds s))); auto. rewrite nth_overflow in H by lia. discriminate. Qed.
Lemma alive_nal s h : alive (hnd_at s h) = true -> nal (hds s) > 0.
Proof. intros H. eapply nal_alive; eauto. Qed.

(* growing one thread's knowledge preserves the invariant *)
Lemma inv_with_thr s t x : Inv s -> vle (clk (ths s t)) (clk x) -> seen (ths s t) <= seen x -> seen x <= top s -> Inv (with_thr s t x).
Proof.
  intros I Hc Hs Ht. destruct I. split; cbn; auto.
  - intros u. unfold updf. destruct (Nat.eqb u t); auto.
  - intros h j Ha Hj Hlt. eapply i_K0; eauto. unfold own in *. cbn in *. unfold hnd_at in *. cbn in *.
    unfold updf in Hj. destruct (Nat.eqb _ t) eqn:E; [apply Nat.eqb_eq in E; rewrite E; lia | auto].
  - intros a h Hin Hk Ha. specialize (i_W0 a h Hin Hk Ha). unfold own, hnd_at in *. cbn in *. unfold updf.
    destruct (Nat.eqb _ t) eqn:E; auto. apply Nat.eqb_eq in E. rewrite E in i_W0. specialize (Hc (atid a)). lia.
  - intros a Hin Hk. destruct (i_R0 a Hin Hk) as [R1 R2]. split; auto. intros Ha. specialize (R1 Ha).
    unfold own, hnd_at in *. cbn in *. unfold updf. destruct (Nat.eqb _ t) eqn:E; auto. apply Nat.eqb_eq in E. rewrite E in R1. specialize (Hc (atid a)). lia.
Qed.

Lemma safe_access_true s c k :
  freed s = false ->
  (forall a, In a (accs s) -> conflict (akd a) k = true -> aep a <= c (atid a)) -> safe_access s c k = true.
Proof.
  intros Hf H. unfold safe_access. rewrite Hf. cbn. apply forallb_forall. intros a Hin.
  destruct (conflict (akd a) k) eqn:E; cbn; auto. apply Nat.leb_le. auto.
Qed.

Lemma inv_access_free s t h c : Inv s -> (forall g, alive (hnd_at s g) = false) -> h < length (hds s) ->
  safe_access s c AF = true -> Inv (do_access s t h c AF).
Proof.
  intros I Hnone Hlt Hsafe. destruct I. unfold do_access. split; cbn [err ms ths hds accs freed].
  - rewrite i_err0, Hsafe. reflexivity.
  - exact i_ms0.
  - intros Hpos. destruct (nal_pos_ex (hds s) {| owner := 0; alive := false |} Hpos) as [g Hg]. specialize (Hnone g). unfold hnd_at in Hnone. congruence.
  - exact i_seen0.
  - intros h' j Ha'. unfold hnd_at in *. cbn in *. rewrite Hnone in Ha'. discriminate.
  - intros a h' _ _ Ha'. unfold hnd_at in *. cbn in *. rewrite Hnone in Ha'. discriminate.
  - intros a [<-|Hin] Hk; [discriminate|]. apply (i_R0 a Hin Hk).
  - intros a _ _. reflexivity.
  - intros a [<-|Hin]; [cbn; exact Hlt|auto].
Qed.

Theorem step_inv p s t h o : sound_proto p = true -> Inv s -> Inv (step p s t h o).
Proof.
  intros Hp I. unfold sound_proto in Hp. apply andb_prop in Hp as [Hp Hp3]. apply andb_prop in Hp as [Hp1 Hp2]. unfold step.
  destruct (alive (hnd_at s h) && Nat.eqb (owner (hnd_at s h)) t) eqn:G; cbn [negb]; [|exact I].
  apply andb_prop in G as [Ha Ho]. apply Nat.eqb_eq in Ho.
  pose proof (alive_lt _ _ Ha) as Hlt. pose proof (alive_nal _ _ Ha) as Hn.
  destruct (i_cnt _ I Hn) as [Hfr Hcnt].
  set (T := ths s t). set (c := vbump t (clk T)).
  assert (vle (clk T) c) as Hcb by apply vle_bump.
  assert (own s h = t) as Hown by exact Ho.
  destruct o as [| | |j|t'].
  - (* Read *)
    set (s1 := with_thr s t {| clk := c; seen := seen T; pend := pend T |}).
    assert (Inv s1) as I1. { apply inv_with_thr; cbn; auto. apply (i_seen _ I). }
    assert (safe_access s1 c AR = true) as Hsafe.
    { apply safe_access_true; [exact Hfr|]. cbn. intros a Hin Hcf. destruct (akd a) eqn:Ek; cbn in Hcf; try discriminate.
      - pose proof (i_W _ I a h Hin Ek Ha) as H1. rewrite Hown in H1. specialize (Hcb (atid a)). fold T in H1. lia.
      - rewrite (i_F _ I a Hin Ek) in Hfr. discriminate. }
    destruct I1. unfold do_access. split; cbn [err ms ths hds accs freed]; auto.
    + rewrite i_err0, Hsafe. reflexivity.
    + intros a h' [<-|Hin] Hk Ha'; [discriminate|]. eauto.
    + intros a [<-|Hin] Hk; [|eauto]. cbn. split; [|intros E; unfold s1, hnd_at in E; cbn in E; unfold hnd_at in Ha; congruence].
      intros _. unfold own, hnd_at, s1. cbn. unfold hnd_at in Ho. rewrite Ho, updf_eq. cbn. lia.
    + intros a [<-|Hin] Hk; [discriminate|]. eauto.
    + intros a [<-|Hin]; [cbn; exact Hlt|eauto].
  - (* Clone *)
    pose proof (i_ms _ I) as Hms. set (m := msg_at s (top s)) in *.
    assert (length (ms s) = S (top s)) as Hlen by (unfold top; lia).
    split; cbn [err ms ths hds accs freed]; try apply I.
    + rewrite app_length; cbn; lia.
    + intros _. rewrite nal_app. cbn. split; [exact Hfr|]. unfold top, msg_at. cbn. rewrite app_length. cbn.
      replace (length (ms s) + 1 - 1) with (length (ms s)) by lia. rewrite nth_app_new. cbn. fold m. lia.
    + intros u. unfold top. cbn. rewrite app_length. cbn. unfold updf. destruct (Nat.eqb u t); cbn; [lia|]. pose proof (i_seen _ I u). unfold top in *. lia.
    + intros h' j Ha' Hsj Hjt. unfold top in Hjt. cbn in Hjt. rewrite app_length in Hjt. cbn in Hjt.
      unfold own, hnd_at in Ha', Hsj. cbn in Ha', Hsj. unfold msg_at. cbn.
      destruct (Nat.eq_dec h' (length (hds s))) as [->|Hne].
      { rewrite nth_app_new in Hsj. cbn in Hsj. rewrite updf_eq in Hsj. cbn in Hsj. lia. }
      assert (h' < length (hds s)) as Hlt'. { destruct (lt_dec h' (length (hds s))); auto. rewrite nth_overflow in Ha' by (rewrite app_length; cbn; lia). discriminate. }
      rewrite nth_app_old in Ha', Hsj by exact Hlt'.
      destruct (Nat.eq_dec (owner (nth h' (hds s) {| owner := 0; alive := false |})) t) as [Et|Et].
      { rewrite Et, updf_eq in Hsj. cbn in Hsj. lia. }
      rewrite updf_ne in Hsj by exact Et. rewrite nth_app_old by lia.
      destruct (Nat.eq_dec j (top s)) as [->|Hj].
      * assert (h <> h') as Hhh by (intros ->; apply Et; exact Ho).
        pose proof (nal_two (hds s) h h' {| owner := 0; alive := false |} eq_refl Hhh Ha Ha'). unfold m, msg_at in Hcnt. lia.
      * apply (i_K _ I h' j Ha' Hsj). lia.
    + intros a h' Hin Hk Ha'. unfold own, hnd_at in *. cbn in *.
      assert (aep a <= clk T (atid a)) as HT by (pose proof (i_W _ I a h Hin Hk Ha) as X; unfold own, hnd_at in X; rewrite Ho in X; exact X).
      destruct (Nat.eq_dec h' (length (hds s))) as [->|Hne].
      { rewrite nth_app_new. cbn. rewrite updf_eq. cbn. specialize (Hcb (atid a)). lia. }
      assert (h' < length (hds s)) as Hlt'. { destruct (lt_dec h' (length (hds s))); auto. rewrite nth_overflow in Ha' by (rewrite app_length; cbn; lia). discriminate. }
      rewrite nth_app_old in * by exact Hlt'. unfold updf. destruct (Nat.eqb _ t) eqn:E; cbn.
      { specialize (Hcb (atid a)). lia. } apply (i_W _ I a h' Hin Hk Ha').
    + intros a Hin Hk. pose proof (i_H _ I a Hin) as Hg. destruct (i_R _ I a Hin Hk) as [R1 R2]. unfold own, hnd_at in *. cbn.
      rewrite nth_app_old by exact Hg. split.
      * intros Hag. specialize (R1 Hag). unfold updf. destruct (Nat.eqb _ t) eqn:E; cbn; auto. apply Nat.eqb_eq in E. rewrite E in R1. specialize (Hcb (atid a)). fold T in R1. lia.
      * intros Hag. specialize (R2 Hag). unfold top, msg_at in *. cbn. rewrite app_length. cbn.
        replace (length (ms s) + 1 - 1) with (length (ms s)) by lia. rewrite nth_app_new. cbn. unfold m. destruct (incr_release p); unfold vjoin; lia.
    + intros a Hin. rewrite app_length. cbn. pose proof (i_H _ I a Hin). lia.
  - (* Drop *)
    pose proof (i_ms _ I) as Hms. set (m := msg_at s (top s)) in *.
    assert (length (ms s) = S (top s)) as Hlen by (unfold top; lia).
    set (pd := vjoin (pend T) (mview m)). rewrite Hp1, Hp2. rewrite andb_true_r.
    set (c' := if mval m =? 0 then vjoin c pd else c).
    assert (vle c c') as Hc' by (unfold c'; destruct (mval m =? 0); [apply vle_join_l|apply vle_refl]).
    assert (vle (clk T) c') as Hcc' by (eapply vle_trans; eauto).
    set (dh := {| owner := 0; alive := false |}).
    set (s1 := {| ms := ms s ++ [{| mval := mval m - 1; mview := vjoin (mview m) c |}];
                  ths := updf (ths s) t {| clk := c'; seen := S (top s); pend := pd |};
                  hds := updl (hds s) h {| owner := t; alive := false |};
                  accs := accs s; freed := freed s; err := err s |}).
    assert (nal (hds s1) + 1 = nal (hds s)) as Hnal.
    { pose proof (nal_updl (hds s) h {| owner := t; alive := false |} dh Hlt) as X. unfold hnd_at in Ha. fold dh in Ha. rewrite Ha in X. cbn in X. unfold s1; cbn [hds]. lia. }
    assert (forall g, g <> h -> hnd_at s1 g = hnd_at s g) as Hother by (intros g Hg; unfold hnd_at; cbn; apply nth_updl_ne; auto).
    assert (alive (hnd_at s1 h) = false) as Hdead by (unfold hnd_at; cbn; rewrite nth_updl_eq; auto).
    assert (top s1 = S (top s)) as Htop1 by (unfold top; cbn; rewrite app_length; cbn; lia).
    assert (msg_at s1 (top s1) = {| mval := mval m - 1; mview := vjoin (mview m) c |}) as Hm1.
    { rewrite Htop1. unfold msg_at. cbn. rewrite <- Hlen. apply nth_app_new. }
    assert (Inv s1) as I1.
    { split; cbn [err ms ths hds accs freed s1]; try apply I.
      - rewrite app_length; cbn; lia.
      - intros Hpos. split; [exact Hfr|]. fold s1. rewrite Hm1. cbn [mval]. unfold s1 in Hnal; cbn [hds] in Hnal. lia.
      - intros u. fold s1. rewrite Htop1. unfold updf. destruct (Nat.eqb u t); cbn; [lia|]. pose proof (i_seen _ I u). lia.
      - intros h' j Ha' Hsj Hjt. fold s1 in Ha', Hsj, Hjt. rewrite Htop1 in Hjt.
        assert (h' <> h) as Hne by (intros ->; congruence).
        unfold own in Hsj. rewrite (Hother _ Hne) in Ha', Hsj. cbn in Hsj.
        destruct (Nat.eq_dec (owner (hnd_at s h')) t) as [Et|Et].
        { rewrite Et, updf_eq in Hsj. cbn in Hsj. lia. }
        rewrite updf_ne in Hsj by exact Et. unfold msg_at. cbn. rewrite nth_app_old by lia.
        destruct (Nat.eq_dec j (top s)) as [->|Hj].
        + pose proof (nal_two (hds s) h h' dh eq_refl (not_eq_sym Hne) Ha Ha'). unfold m, msg_at in Hcnt. lia.
        + apply (i_K _ I h' j Ha' Hsj). lia.
      - intros a h' Hin Hk Ha'. fold s1 in Ha'. assert (h' <> h) as Hne by (intros ->; congruence).
        unfold own. fold s1. rewrite (Hother _ Hne) in *. cbn. pose proof (i_W _ I a h' Hin Hk Ha') as X. unfold own in X.
        unfold updf. destruct (Nat.eqb _ t) eqn:E; cbn; auto. apply Nat.eqb_eq in E. rewrite E in X. specialize (Hcc' (atid a)). fold T in X. lia.
      - intros a Hin Hk. fold s1. destruct (i_R _ I a Hin Hk) as [R1 R2]. rewrite Hm1. cbn [mview].
        destruct (Nat.eq_dec (ahnd a) h) as [Eg|Eg].
        + rewrite Eg in *. split; [intros X; congruence|]. intros _. specialize (R1 Ha). rewrite Hown in R1. fold T in R1.
          specialize (Hcb (atid a)). unfold vjoin. lia.
        + unfold own. rewrite (Hother _ Eg). split.
          * intros Hag. specialize (R1 Hag). unfold own in R1. cbn. unfold updf. destruct (Nat.eqb _ t) eqn:E; cbn; auto.
            apply Nat.eqb_eq in E. rewrite E in R1. specialize (Hcc' (atid a)). fold T in R1. lia.
          * intros Hag. specialize (R2 Hag). fold m in R2. unfold vjoin. lia.
      - intros a Hin. rewrite updl_length. apply (i_H _ I a Hin). }
    destruct (mval m =? 0) eqn:Ez; [|exact I1].
    apply Nat.eqb_eq in Ez.
    assert (nal (hds s) = 1) as H1 by lia. assert (nal (hds s1) = 0) as H0 by lia.
    assert (safe_access s1 c' AF = true) as Hsafe.
    { apply safe_access_true; [exact Hfr|]. cbn [accs s1]. intros a Hin _. unfold c'. destruct (akd a) eqn:Ek.
      - destruct (i_R _ I a Hin Ek) as [R1 R2]. destruct (alive (hnd_at s (ahnd a))) eqn:Eg.
        + assert (ahnd a = h) as Eh. { eapply (nal_one (hds s)); [exact H1| |exact Eg|exact Ha]. reflexivity. }
          specialize (R1 eq_refl). rewrite Eh, Hown in R1. fold T in R1. specialize (Hcb (atid a)). unfold vjoin. lia.
        + specialize (R2 eq_refl). fold m in R2. unfold pd, vjoin. lia.
      - pose proof (i_W _ I a h Hin Ek Ha) as H2. rewrite Hown in H2. fold T in H2. specialize (Hcb (atid a)). unfold vjoin. lia.
      - rewrite (i_F _ I a Hin Ek) in Hfr. discriminate. }
    assert (forall g, alive (hnd_at s1 g) = false) as Hnone by (intros g; apply nal_zero_dead; auto).
    apply inv_access_free; auto. unfold s1; cbn [hds]. rewrite updl_length. exact Hlt.
  - (* TryMut *)
    destruct ((seen T <=? j) && (j <=? top s)) eqn:Gj; cbn [negb]; [|exact I].
    apply andb_prop in Gj as [Hsj Hjt]. apply Nat.leb_le in Hsj. apply Nat.leb_le in Hjt.
    set (m := msg_at s j). set (pd := vjoin (pend T) (mview m)).
    destruct (mval m =? 0) eqn:Ez.
    2:{ apply inv_with_thr; cbn; auto. }
    apply Nat.eqb_eq in Ez. rewrite Hp3.
    (* key lemma: an owner that reads 0 has read the latest message, and is the only owner *)
    assert (j = top s) as Hj.
    { destruct (Nat.eq_dec j (top s)); auto. exfalso.
      assert (mval (msg_at s j) >= 1) as Hge by (apply (i_K _ I h j Ha); [rewrite Hown; exact Hsj | lia]).
      fold m in Hge. lia. }
    assert (nal (hds s) = 1) as H1 by (subst j; fold m in Hcnt; lia).
    set (c' := vjoin c pd).
    set (s1 := with_thr s t {| clk := c'; seen := j; pend := pd |}).
    assert (vle (clk T) c') as Hcc' by (eapply vle_trans; [exact Hcb | apply vle_join_l]).
    assert (Inv s1) as I1 by (apply inv_with_thr; cbn; auto).
    assert (safe_access s1 c' AW = true) as Hsafe.
    { apply safe_access_true; [exact Hfr|]. cbn. intros a Hin _. destruct (akd a) eqn:Ek.
      - destruct (i_R _ I a Hin Ek) as [R1 R2]. destruct (alive (hnd_at s (ahnd a))) eqn:Eg.
        + assert (ahnd a = h) as Eh. { eapply (nal_one (hds s)); [exact H1| |exact Eg|exact Ha]. reflexivity. }
          specialize (R1 eq_refl). rewrite Eh, Hown in R1. specialize (Hcc' (atid a)). fold T in R1. lia.
        + specialize (R2 eq_refl). rewrite <- Hj in R2. fold m in R2.
          unfold c', pd, vjoin. lia.
      - pose proof (i_W _ I a h Hin Ek Ha) as H2. rewrite Hown in H2. specialize (Hcc' (atid a)). fold T in H2. lia.
      - rewrite (i_F _ I a Hin Ek) in Hfr. discriminate. }
    destruct I1. unfold do_access. split; cbn [err ms ths hds accs freed]; auto.
    + rewrite i_err0, Hsafe. reflexivity.
    + intros a h' [<-|Hin] Hk Ha'; [|eauto]. cbn.
      assert (h' = h) as ->. { eapply (nal_one (hds s)); [exact H1| |exact Ha'|exact Ha]. reflexivity. }
      unfold own, hnd_at, s1. cbn. unfold hnd_at in Ho. rewrite Ho, updf_eq. cbn. lia.
    + intros a [<-|Hin] Hk; [discriminate|eauto].
    + intros a [<-|Hin] Hk; [discriminate|eauto].
    + intros a [<-|Hin]; [cbn; exact Hlt|eauto].
  - (* Send *)
    set (T' := ths s t'). set (dh := {| owner := 0; alive := false |}).
    set (nt := {| clk := c; seen := seen T; pend := pend T |}).
    set (nt' := {| clk := vjoin (clk T') c; seen := Nat.max (seen T') (seen T); pend := pend T' |}).
    set (s1 := {| ms := ms s; ths := updf (updf (ths s) t nt) t' nt'; hds := updl (hds s) h {| owner := t'; alive := true |};
                  accs := accs s; freed := freed s; err := err s |}).
    assert (forall g, g <> h -> hnd_at s1 g = hnd_at s g) as Hother by (intros g Hg; unfold hnd_at; cbn; apply nth_updl_ne; auto).
    assert (hnd_at s1 h = {| owner := t'; alive := true |}) as Hh1 by (unfold hnd_at; cbn; rewrite nth_updl_eq; auto).
    assert (forall g, alive (hnd_at s1 g) = alive (hnd_at s g)) as Hal.
    { intros g. destruct (Nat.eq_dec g h) as [->|Hg]; [rewrite Hh1; cbn; auto | now rewrite Hother]. }
    (* every thread's clock grows and its coherence point does not move backwards; the receiver also learns the sender's *)
    assert (forall u, vle (clk (ths s u)) (clk (ths s1 u)) /\ seen (ths s u) <= seen (ths s1 u)) as Hmono.
    { intros u. cbn. unfold updf. destruct (Nat.eqb u t') eqn:E1.
      - apply Nat.eqb_eq in E1. subst u. cbn. split; [apply vle_join_l | fold T'; lia].
      - destruct (Nat.eqb u t) eqn:E2; cbn; [|split; [apply vle_refl|lia]]. apply Nat.eqb_eq in E2. subst u. fold T. split; [exact Hcb|lia]. }
    assert (vle (clk T) (clk (ths s1 t')) /\ seen T <= seen (ths s1 t')) as Hrecv.
    { cbn. rewrite updf_eq. cbn. split; [eapply vle_trans; [exact Hcb|apply vle_join_r] | lia]. }
    (* the (possibly new) owner of any alive handle knows at least what the old owner knew *)
    assert (forall g, alive (hnd_at s g) = true ->
              vle (clk (ths s (own s g))) (clk (ths s1 (own s1 g))) /\ seen (ths s (own s g)) <= seen (ths s1 (own s1 g))) as Hknow.
    { intros g Hg. destruct (Nat.eq_dec g h) as [->|Hne].
      - unfold own at 2 4. rewrite Hh1. cbn [owner]. rewrite Hown. exact Hrecv.
      - unfold own at 2 4. rewrite (Hother _ Hne). apply Hmono. }
    split; cbn [err ms ths hds accs freed]; try apply I.
    + intros Hpos. assert (nal (hds s1) = nal (hds s)) as E.
      { pose proof (nal_updl (hds s) h {| owner := t'; alive := true |} dh Hlt) as X. unfold hnd_at in Ha. fold dh in Ha. rewrite Ha in X. cbn [alive] in X.
        unfold s1; cbn [hds]. lia. }
      split; [exact Hfr|]. change (mval (msg_at s (top s)) + 1 = nal (hds s1)). rewrite E. exact Hcnt.
    + intros u. change (seen (ths s1 u) <= top s). unfold s1; cbn [ths]. unfold updf.
      pose proof (i_seen _ I t') as S1. pose proof (i_seen _ I t) as S2. pose proof (i_seen _ I u) as S3.
      destruct (Nat.eqb u t'); cbn [seen nt nt']; [unfold nt', T', T; cbn [seen]; lia|].
      destruct (Nat.eqb u t); [unfold nt, T; cbn [seen]; lia | exact S3].
    + intros g j Hg Hsj Hjt. fold s1 in Hg, Hsj. rewrite Hal in Hg. destruct (Hknow g Hg) as [_ Hs].
      apply (i_K _ I g j Hg); [lia | exact Hjt].
    + intros a g Hin Hk Hg. fold s1 in Hg. fold s1. rewrite Hal in Hg. destruct (Hknow g Hg) as [Hv _].
      pose proof (i_W _ I a g Hin Hk Hg). specialize (Hv (atid a)). lia.
    + intros a Hin Hk. fold s1. destruct (i_R _ I a Hin Hk) as [R1 R2]. rewrite Hal. split; [|exact R2].
      intros Hg. destruct (Hknow _ Hg) as [Hv _]. specialize (R1 Hg). specialize (Hv (atid a)). lia.
    + intros a Hin. change (ahnd a < length (hds s1)). unfold s1; cbn [hds]. rewrite updl_length. apply (i_H _ I a Hin).
Qed.


Theorem run_inv p : sound_proto p = true -> forall sc s, Inv s -> Inv (fold_left (fun s '(t, h, o) => step p s t h o) sc s).
Proof. intros Hp. induction sc as [|[[t h] o] sc IH]; intros s I; cbn [fold_left]; [exact I|]. apply IH. now apply step_inv. Qed.
Lemma inv_init : Inv init.
Proof.
  split.
  - reflexivity.
  - cbn. lia.
  - intros _. split; reflexivity.
  - intros t. cbn. lia.
  - intros h j Ha Hs Hj. unfold top in Hj. cbn in Hj. lia.
  - intros a h Hin. cbn in Hin. contradiction.
  - intros a Hin. cbn in Hin. contradiction.
  - intros a Hin. cbn in Hin. contradiction.
  - intros a Hin. cbn in Hin. contradiction.
Qed.
(* every schedule, any number of threads, any number of clones: no race, no use-after-free, no double free *)
Theorem race_free_all_schedules : forall p, sound_proto p = true -> forall sc, err (run p sc) = false.
Proof. intros p Hp sc. apply i_err. apply run_inv; [exact Hp|apply inv_init]. Qed.
(* the protocol as written in smart.rs, and the same with a relaxed increment (as std's Arc does) *)
Corollary pinned_protocol_ok : forall sc, err (run sound sc) = false.
Proof. apply race_free_all_schedules. reflexivity. Qed.
Corollary relaxed_incr_ok : forall sc, err (run {| incr_release := false; decr_release := true; free_fence := true; uniq_fence := true |} sc) = false.
Proof. apply race_free_all_schedules. reflexivity. Qed.
Print Assumptions race_free_all_schedules.
