From Coq Require Import List Arith Lia Bool.
Import ListNotations.

(* ---------- vector clocks ---------- *)
Definition vc := nat -> nat.
Definition vzero : vc := fun _ => 0.
Definition vle (a b : vc) := forall t, a t <= b t.
Definition vjoin (a b : vc) : vc := fun t => Nat.max (a t) (b t).
Definition vbump (t : nat) (a : vc) : vc := fun u => if Nat.eqb u t then S (a u) else a u.

(* ---------- protocol parameters (what gen/CounterGen.v will supply) ---------- *)
Record proto := { incr_release : bool; decr_release : bool; free_fence : bool; uniq_fence : bool }.

Record msg := { mval : nat; mview : vc }.
Record thr := { clk : vc; seen : nat; pend : vc }.
Record hnd := { owner : nat; alive : bool }.
Inductive akind := AR | AW | AF.
Record acc := { atid : nat; aep : nat; akd : akind; ahnd : nat }.
Record st := { ms : list msg; ths : nat -> thr; hds : list hnd; accs : list acc; freed : bool; err : bool }.

Definition top (s : st) := length (ms s) - 1.
Definition msg_at (s : st) j := nth j (ms s) {| mval := 0; mview := vzero |}.
Definition hnd_at (s : st) h := nth h (hds s) {| owner := 0; alive := false |}.
Definition updf {A} (f : nat -> A) (t : nat) (x : A) : nat -> A := fun u => if Nat.eqb u t then x else f u.
Fixpoint updl {A} (l : list A) (i : nat) (x : A) : list A :=
  match l, i with [] , _ => [] | _ :: r, 0 => x :: r | y :: r, S i => y :: updl r i x end.

Definition conflict (a b : akind) : bool := match a, b with AR, AR => false | _, _ => true end.
(* an access by t with clock c is safe iff nothing freed and every earlier conflicting access happens-before it *)
Definition safe_access (s : st) (c : vc) (k : akind) : bool :=
  negb (freed s) && forallb (fun a => negb (conflict (akd a) k) || (aep a <=? c (atid a))) (accs s).

Inductive op := Read | Clone | Drop | TryMut (j : nat) | Send (t' : nat).

Definition do_access (s : st) (t h : nat) (c : vc) (k : akind) : st :=
  {| ms := ms s; ths := ths s; hds := hds s;
     accs := {| atid := t; aep := c t; akd := k; ahnd := h |} :: accs s;
     freed := match k with AF => true | _ => freed s end;
     err := err s || negb (safe_access s c k) |}.

Definition with_thr (s : st) (t : nat) (x : thr) : st :=
  {| ms := ms s; ths := updf (ths s) t x; hds := hds s; accs := accs s; freed := freed s; err := err s |}.

Definition step (p : proto) (s : st) (t h : nat) (o : op) : st :=
  let H := hnd_at s h in
  if negb (alive H && Nat.eqb (owner H) t) then s else
  let T := ths s t in
  let c := vbump t (clk T) in
  match o with
  | Read => do_access (with_thr s t {| clk := c; seen := seen T; pend := pend T |}) t h c AR
  | Clone =>
      let m := msg_at s (top s) in
      {| ms := ms s ++ [ {| mval := S (mval m); mview := if incr_release p then vjoin (mview m) c else mview m |} ];
         ths := updf (ths s) t {| clk := c; seen := S (top s); pend := pend T |};
         hds := hds s ++ [ {| owner := t; alive := true |} ];
         accs := accs s; freed := freed s; err := err s |}
  | Drop =>
      let m := msg_at s (top s) in
      let pd := vjoin (pend T) (mview m) in
      let c' := if (mval m =? 0) && free_fence p then vjoin c pd else c in
      let s1 := {| ms := ms s ++ [ {| mval := mval m - 1; mview := if decr_release p then vjoin (mview m) c else mview m |} ];
                   ths := updf (ths s) t {| clk := c'; seen := S (top s); pend := pd |};
                   hds := updl (hds s) h {| owner := t; alive := false |};
                   accs := accs s; freed := freed s; err := err s |} in
      if mval m =? 0 then do_access s1 t h c' AF else s1
  | TryMut j =>
      if negb ((seen T <=? j) && (j <=? top s)) then s else
      let m := msg_at s j in
      let pd := vjoin (pend T) (mview m) in
      if mval m =? 0 then
        let c' := if uniq_fence p then vjoin c pd else c in
        do_access (with_thr s t {| clk := c'; seen := j; pend := pd |}) t h c' AW
      else with_thr s t {| clk := c; seen := j; pend := pd |}
  | Send t' =>
      let T' := ths s t' in
      {| ms := ms s;
         ths := updf (updf (ths s) t {| clk := c; seen := seen T; pend := pend T |}) t'
                     {| clk := vjoin (clk T') c; seen := Nat.max (seen T') (seen T); pend := pend T' |};
         hds := updl (hds s) h {| owner := t'; alive := true |};
         accs := accs s; freed := freed s; err := err s |}
  end.

Definition init : st :=
  {| ms := [ {| mval := 0; mview := vzero |} ];
     ths := fun _ => {| clk := vzero; seen := 0; pend := vzero |};
     hds := [ {| owner := 0; alive := true |} ]; accs := []; freed := false; err := false |}.

Definition sched := list (nat * nat * op).
Definition run (p : proto) (sc : sched) : st := fold_left (fun s '(t, h, o) => step p s t h o) sc init.

Definition sound : proto := {| incr_release := true; decr_release := true; free_fence := true; uniq_fence := true |}.
(* what the proof needs; the ordering of incr is free *)
Definition sound_proto (p : proto) : bool := decr_release p && free_fence p && uniq_fence p.

(* the weakened protocols really are racy: concrete schedules *)
Example relaxed_decr_races : err (run {| incr_release := true; decr_release := false; free_fence := true; uniq_fence := true |}
   [ (0,0,Clone); (0,1,Send 1); (1,1,Read); (1,1,Drop); (0,0,TryMut 2) ]) = true.
Proof. vm_compute. reflexivity. Qed.
Example no_uniq_fence_races : err (run {| incr_release := true; decr_release := true; free_fence := true; uniq_fence := false |}
   [ (0,0,Clone); (0,1,Send 1); (1,1,Read); (1,1,Drop); (0,0,TryMut 2) ]) = true.
Proof. vm_compute. reflexivity. Qed.
Example no_free_fence_races : err (run {| incr_release := true; decr_release := true; free_fence := false; uniq_fence := true |}
   [ (0,0,Clone); (0,1,Send 1); (1,1,Read); (1,1,Drop); (0,0,Drop) ]) = true.
Proof. vm_compute. reflexivity. Qed.
Example sound_same_schedule_ok : err (run sound [ (0,0,Clone); (0,1,Send 1); (1,1,Read); (1,1,Drop); (0,0,TryMut 2) ]) = false.
Proof. vm_compute. reflexivity. Qed.
(* a stale read of the count is possible in the model and harmless: thread 0 may still read message 1 (value 1) *)
Example stale_read_is_modelled : err (run sound [ (0,0,Clone); (0,1,Send 1); (1,1,Drop); (0,0,TryMut 1) ]) = false.
Proof. vm_compute. reflexivity. Qed.
