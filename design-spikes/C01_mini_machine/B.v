From stdpp Require Import gmap list.
From Coq Require Import NArith Lia.
Local Open Scope N_scope.

Notation hid := positive. Notation bid := positive.
Record blk := Blk { vdata : list N; cnt : N; owners : gset hid }.
Inductive repr := RInl (d : list N) | RAll (b : bid) (off len : nat).
Record st := St { blocks : gmap bid blk; hs : gmap hid repr; nextb : bid }.

Definition sub (l : list N) (off len : nat) := take len (drop off l).
Definition view (s : st) (r : repr) : list N :=
  match r with RInl d => d | RAll b off len => match blocks s !! b with Some k => sub (vdata k) off len | None => [] end end.
Definition abs (s : st) : gmap hid (list N) := view s <$> hs s.

Inductive op := ONew (h : hid) (d : list N) | OClone (h h' : hid) | ODrop (h : hid) | OPush (h : hid) (x : N).

Definition release (s : st) (h : hid) (b : bid) : gmap bid blk :=
  match blocks s !! b with
  | Some k => if (cnt k =? 0)%N then delete b (blocks s) else <[b := Blk (vdata k) (cnt k - 1) (owners k ∖ {[h]})]> (blocks s)
  | None => blocks s end.

Definition step (s : st) (o : op) : st :=
  match o with
  | ONew h d => match hs s !! h with Some _ => s | None =>
      St (<[nextb s := Blk d 0 {[h]}]> (blocks s)) (<[h := RAll (nextb s) 0 (length d)]> (hs s)) (Pos.succ (nextb s)) end
  | OClone h h' => match hs s !! h, hs s !! h' with
      | Some (RInl d), None => St (blocks s) (<[h' := RInl d]> (hs s)) (nextb s)
      | Some (RAll b off len), None => match blocks s !! b with
          | Some k => St (<[b := Blk (vdata k) (cnt k + 1) (owners k ∪ {[h']})]> (blocks s)) (<[h' := RAll b off len]> (hs s)) (nextb s)
          | None => s end
      | _, _ => s end
  | ODrop h => match hs s !! h with
      | Some (RInl _) => St (blocks s) (delete h (hs s)) (nextb s)
      | Some (RAll b _ _) => St (release s h b) (delete h (hs s)) (nextb s)
      | None => s end
  | OPush h x => match hs s !! h with
      | Some (RInl d) => St (blocks s) (<[h := RInl (d ++ [x])]> (hs s)) (nextb s)
      | Some (RAll b off len) => match blocks s !! b with
          | Some k => if (cnt k =? 0)%N
              then St (<[b := Blk (take (off + len) (vdata k) ++ [x]) 0 (owners k)]> (blocks s)) (<[h := RAll b off (S len)]> (hs s)) (nextb s)
              else St (<[nextb s := Blk (sub (vdata k) off len ++ [x]) 0 {[h]}]> (release s h b))
                      (<[h := RAll (nextb s) 0 (S len)]> (hs s)) (Pos.succ (nextb s))
          | None => s end
      | None => s end
  end.

Definition spec_step (m : gmap hid (list N)) (o : op) : gmap hid (list N) :=
  match o with
  | ONew h d => match m !! h with Some _ => m | None => <[h := d]> m end
  | OClone h h' => match m !! h, m !! h' with Some d, None => <[h' := d]> m | _, _ => m end
  | ODrop h => delete h m
  | OPush h x => match m !! h with Some d => <[h := d ++ [x]]> m | None => m end
  end.

Record Inv (s : st) : Prop := {
  inv_ref : forall h b off len, hs s !! h = Some (RAll b off len) ->
     exists k, blocks s !! b = Some k /\ h ∈ owners k /\ (off + len <= length (vdata k))%nat;
  inv_own : forall b k h, blocks s !! b = Some k -> h ∈ owners k -> exists off len, hs s !! h = Some (RAll b off len);
  inv_cnt : forall b k, blocks s !! b = Some k -> (cnt k + 1 = N.of_nat (size (owners k)))%N;
  inv_fresh : forall b, (nextb s <= b)%positive -> blocks s !! b = None;
}.
