From stdpp Require Import gmap list.
From Coq Require Import NArith Lia.
Require Import B.
Local Open Scope N_scope.

Lemma abs_lookup s h : abs s !! h = view s <$> (hs s !! h).
Proof. unfold abs. by rewrite lookup_fmap. Qed.

Lemma unique_owner s b k h h' : Inv s -> blocks s !! b = Some k -> cnt k = 0 -> h ∈ owners k -> h' ∈ owners k -> h = h'.
Proof.
  intros I Hb Hc Hh Hh'. pose proof (inv_cnt _ I _ _ Hb) as Hs. rewrite Hc in Hs.
  assert (size (owners k) = 1%nat) as H1 by lia.
  apply size_1_elem_of in H1 as [x Hx]. rewrite Hx in Hh, Hh'. apply elem_of_singleton in Hh, Hh'. congruence.
Qed.

(* the only thing a view depends on *)
Lemma view_ext s s' r :
  (forall b off len, r = RAll b off len -> vdata <$> (blocks s' !! b) = vdata <$> (blocks s !! b)) -> view s' r = view s r.
Proof.
  intros H. destruct r as [d|b off len]; [done|]. specialize (H b off len eq_refl). unfold view.
  destruct (blocks s' !! b), (blocks s !! b); simpl in H; congruence.
Qed.

Lemma sub_all l : sub l 0 (length l) = l.
Proof. unfold sub. by rewrite drop_0, firstn_all. Qed.
Lemma sub_push l off len x : (off + len <= length l)%nat -> sub (take (off + len) l ++ [x]) off (S len) = sub l off len ++ [x].
Proof.
  intros H. unfold sub. rewrite drop_app_le by (rewrite take_length; lia).
  rewrite take_app_ge by (rewrite drop_length, take_length; lia).
  f_equal; [by rewrite take_drop_commute|].
  rewrite drop_length, take_length, Nat.min_l by lia. replace (S len - (off + len - off))%nat with 1%nat by lia. done.
Qed.

(* generic way to prove abs equalities: pointwise with a per-handle view argument *)
Lemma abs_insert_eq s s' h r v :
  hs s' = <[h := r]> (hs s) -> view s' r = v ->
  (forall i r', i <> h -> hs s !! i = Some r' -> view s' r' = view s r') ->
  abs s' = <[h := v]> (abs s).
Proof.
  intros Hh Hv Hf. apply map_eq; intros i. rewrite abs_lookup, Hh. destruct (decide (i = h)) as [->|Hne].
  - by rewrite !lookup_insert; simpl; rewrite Hv.
  - rewrite !lookup_insert_ne by done. rewrite abs_lookup. destruct (hs s !! i) eqn:Hi; simpl; [|done]. f_equal. by eapply Hf.
Qed.
Lemma abs_delete_eq s s' h :
  hs s' = delete h (hs s) ->
  (forall i r', i <> h -> hs s !! i = Some r' -> view s' r' = view s r') ->
  abs s' = delete h (abs s).
Proof.
  intros Hh Hf. apply map_eq; intros i. rewrite abs_lookup, Hh. destruct (decide (i = h)) as [->|Hne].
  - by rewrite !lookup_delete.
  - rewrite !lookup_delete_ne by done. rewrite abs_lookup. destruct (hs s !! i) eqn:Hi; simpl; [|done]. f_equal. by eapply Hf.
Qed.

Lemma release_other s h b b' : b' <> b -> release s h b !! b' = blocks s !! b'.
Proof. intros Hb. unfold release. destruct (blocks s !! b) as [k|]; [|done]. destruct (cnt k =? 0); [by rewrite lookup_delete_ne | by rewrite lookup_insert_ne]. Qed.
Lemma release_same_shared s h b k : blocks s !! b = Some k -> cnt k <> 0 -> vdata <$> (release s h b !! b) = Some (vdata k).
Proof. intros Hk Hc. unfold release. rewrite Hk. apply N.eqb_neq in Hc. rewrite Hc. by rewrite lookup_insert. Qed.

Theorem sim s o : Inv s -> abs (step s o) = spec_step (abs s) o.
Proof.
  intros I. destruct o as [h d|h h'|h|h x]; cbn [step spec_step].
  - (* new *) rewrite abs_lookup. destruct (hs s !! h) eqn:Hh; cbn [fmap option_fmap option_map]; [done|].
    eapply abs_insert_eq; [done| |].
    + cbn [view blocks]. rewrite lookup_insert. apply sub_all.
    + intros i r' _ Hi. apply view_ext. intros b off len ->. cbn [blocks].
      destruct (inv_ref _ I _ _ _ _ Hi) as (k & Hk & _). rewrite lookup_insert_ne; [done|]. intros <-. by rewrite (inv_fresh _ I (nextb s)) in Hk.
  - (* clone *) rewrite !abs_lookup. destruct (hs s !! h) as [[d|b off len]|] eqn:Hh; cbn [fmap option_fmap option_map]; [| |done].
    + destruct (hs s !! h') eqn:Hh'; cbn [fmap option_fmap option_map]; [done|]. eapply abs_insert_eq; [done|done|]. intros; by apply view_ext.
    + destruct (hs s !! h') eqn:Hh'; cbn [fmap option_fmap option_map]; [done|]. destruct (inv_ref _ I _ _ _ _ Hh) as (k & Hk & _). rewrite Hk.
      assert (forall r, view (St (<[b:=Blk (vdata k) (cnt k + 1) (owners k ∪ {[h']})]> (blocks s)) (<[h':=RAll b off len]> (hs s)) (nextb s)) r = view s r) as Hv.
      { intros r. apply view_ext. intros b' o l _. cbn [blocks]. destruct (decide (b' = b)) as [->|]; [by rewrite lookup_insert, Hk | by rewrite lookup_insert_ne]. }
      eapply abs_insert_eq; [done| by rewrite Hv | intros; by rewrite Hv].
  - (* drop *) destruct (hs s !! h) as [[d|b off len]|] eqn:Hh.
    + eapply abs_delete_eq; [done|]. intros; by apply view_ext.
    + eapply abs_delete_eq; [done|]. intros i r' Hne Hi. apply view_ext. intros b' o l ->. cbn [blocks].
      destruct (decide (b' = b)) as [->|Hb]; [|by rewrite release_other].
      destruct (inv_ref _ I _ _ _ _ Hi) as (k & Hk & Hin & _), (inv_ref _ I _ _ _ _ Hh) as (k' & Hk' & Hin' & _). simplify_eq.
      destruct (decide (cnt k = 0)) as [Hc|Hc]; [exfalso; apply Hne; by eapply unique_owner|]. by rewrite (release_same_shared _ _ _ _ Hk Hc), Hk.
    + rewrite delete_notin; [done | by rewrite abs_lookup, Hh].
  - (* push *) rewrite abs_lookup. destruct (hs s !! h) as [[d|b off len]|] eqn:Hh; cbn [fmap option_fmap option_map]; [| |done].
    + eapply abs_insert_eq; [done|done|]. intros; by apply view_ext.
    + destruct (inv_ref _ I _ _ _ _ Hh) as (k & Hk & Hin & Hlen). cbn [view]. rewrite Hk. destruct (cnt k =? 0) eqn:Hc.
      * apply N.eqb_eq in Hc. eapply abs_insert_eq; [done| |].
        { cbn [view blocks]. rewrite lookup_insert. cbn [vdata]. by apply sub_push. }
        intros i r' Hne Hi. apply view_ext. intros b' o l ->. cbn [blocks]. destruct (decide (b' = b)) as [->|]; [|by rewrite lookup_insert_ne].
        exfalso. destruct (inv_ref _ I _ _ _ _ Hi) as (k' & Hk' & Hin' & _). simplify_eq. apply Hne. by eapply unique_owner.
      * apply N.eqb_neq in Hc. eapply abs_insert_eq; [done| |].
        { cbn [view blocks]. rewrite lookup_insert. cbn [vdata]. rewrite <- (sub_all (sub (vdata k) off len ++ [x])) at 2. f_equal.
          rewrite app_length. cbn [length]. unfold sub. rewrite take_length, drop_length. lia. }
        intros i r' Hne Hi. apply view_ext. intros b' o l ->. cbn [blocks]. destruct (inv_ref _ I _ _ _ _ Hi) as (k' & Hk' & _).
        rewrite lookup_insert_ne by (intros <-; by rewrite (inv_fresh _ I (nextb s)) in Hk').
        destruct (decide (b' = b)) as [->|]; [by rewrite (release_same_shared _ _ _ _ Hk Hc), Hk | by rewrite release_other].
Qed.
Print Assumptions sim.
