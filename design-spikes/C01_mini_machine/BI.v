From stdpp Require Import gmap list.
From Coq Require Import NArith Lia.
Require Import B BP.
Local Open Scope N_scope.

Lemma size_add (X : gset positive) h : h ∉ X -> size (X ∪ {[h]}) = S (size X).
Proof. intros. rewrite size_union by set_solver. rewrite size_singleton. lia. Qed.
Lemma size_remove (X : gset positive) h : h ∈ X -> S (size (X ∖ {[h]})) = size X.
Proof. intros. rewrite size_difference by set_solver. rewrite size_singleton.
  assert (size X <> 0%nat) by (intros ?%size_empty_inv; set_solver). lia. Qed.

Lemma fresh_owner s b k h : Inv s -> blocks s !! b = Some k -> hs s !! h = None -> h ∉ owners k.
Proof. intros I Hb Hh Hin. destruct (inv_own _ I _ _ _ Hb Hin) as (?&?&?). congruence. Qed.

Theorem inv_step s o : Inv s -> Inv (step s o).
Proof.
  intros I. destruct o as [h d|h h'|h|h x]; cbn [step].
  - (* new *) destruct (hs s !! h) eqn:Hh; [done|]. split; cbn [blocks hs nextb].
    + intros i b off len Hi. destruct (decide (i = h)) as [->|Hne].
      * rewrite lookup_insert in Hi. simplify_eq. rewrite lookup_insert. eexists; split; [done|]. cbn. split; [set_solver|lia].
      * rewrite lookup_insert_ne in Hi by done. destruct (inv_ref _ I _ _ _ _ Hi) as (k & Hk & ? & ?).
        rewrite lookup_insert_ne by (intros <-; by rewrite (inv_fresh _ I (nextb s)) in Hk). eauto.
    + intros b k i Hb Hin. destruct (decide (b = nextb s)) as [->|Hne].
      * rewrite lookup_insert in Hb. simplify_eq. cbn in Hin. apply elem_of_singleton in Hin as ->. rewrite lookup_insert. eauto.
      * rewrite lookup_insert_ne in Hb by done. destruct (inv_own _ I _ _ _ Hb Hin) as (off & len & Hi).
        rewrite lookup_insert_ne by congruence. eauto.
    + intros b k Hb. destruct (decide (b = nextb s)) as [->|Hne].
      * rewrite lookup_insert in Hb. simplify_eq. cbn. by rewrite size_singleton.
      * rewrite lookup_insert_ne in Hb by done. by eapply inv_cnt.
    + intros b Hb. rewrite lookup_insert_ne by lia. apply (inv_fresh _ I). lia.
  - (* clone *) destruct (hs s !! h) as [[d|b off len]|] eqn:Hh; [| |done].
    + destruct (hs s !! h') eqn:Hh'; [done|]. split; cbn [blocks hs nextb]; [| |apply I|apply I].
      * intros i b off len Hi. destruct (decide (i = h')) as [->|]; [by rewrite lookup_insert in Hi|]. rewrite lookup_insert_ne in Hi by done. by eapply inv_ref.
      * intros b k i Hb Hin. destruct (inv_own _ I _ _ _ Hb Hin) as (off & len & Hi). rewrite lookup_insert_ne by congruence. eauto.
    + destruct (hs s !! h') eqn:Hh'; [done|]. destruct (inv_ref _ I _ _ _ _ Hh) as (k & Hk & Hin & Hlen). rewrite Hk.
      split; cbn [blocks hs nextb].
      * intros i b' o l Hi. destruct (decide (i = h')) as [->|Hne].
        { rewrite lookup_insert in Hi. simplify_eq. rewrite lookup_insert. eexists; split; [done|]. cbn. split; [set_solver|done]. }
        rewrite lookup_insert_ne in Hi by done. destruct (inv_ref _ I _ _ _ _ Hi) as (k' & Hk' & ? & ?).
        destruct (decide (b' = b)) as [->|]; [|rewrite lookup_insert_ne by done; eauto].
        simplify_eq. rewrite lookup_insert. eexists; split; [done|]. cbn. split; [set_solver|done].
      * intros b' k' i Hb Hi. destruct (decide (b' = b)) as [->|Hne].
        { rewrite lookup_insert in Hb. simplify_eq. cbn in Hi. apply elem_of_union in Hi as [Hi|Hi].
          - destruct (inv_own _ I _ _ _ Hk Hi) as (o & l & Hi'). rewrite lookup_insert_ne by congruence. eauto.
          - apply elem_of_singleton in Hi as ->. rewrite lookup_insert. eauto. }
        rewrite lookup_insert_ne in Hb by done. destruct (inv_own _ I _ _ _ Hb Hi) as (o & l & Hi'). rewrite lookup_insert_ne by congruence. eauto.
      * intros b' k' Hb. destruct (decide (b' = b)) as [->|Hne]; [|rewrite lookup_insert_ne in Hb by done; by eapply inv_cnt].
        rewrite lookup_insert in Hb. simplify_eq. cbn. rewrite size_add by (by eapply fresh_owner). pose proof (inv_cnt _ I _ _ Hk). lia.
      * intros b' Hb'. destruct (decide (b' = b)) as [->|]; [by rewrite (inv_fresh _ I b) in Hk | rewrite lookup_insert_ne by done; by apply I].
  - (* drop *) destruct (hs s !! h) as [[d|b off len]|] eqn:Hh; [| |done].
    + split; cbn [blocks hs nextb]; [| |apply I|apply I].
      * intros i b off len Hi. apply lookup_delete_Some in Hi as [? Hi]. by eapply inv_ref.
      * intros b k i Hb Hin. destruct (inv_own _ I _ _ _ Hb Hin) as (off & len & Hi). rewrite lookup_delete_ne by congruence. eauto.
    + destruct (inv_ref _ I _ _ _ _ Hh) as (k & Hk & Hin & Hlen).
      split; cbn [blocks hs nextb]; unfold release; rewrite Hk; destruct (cnt k =? 0) eqn:Hc.
      * apply N.eqb_eq in Hc. intros i b' o l Hi. apply lookup_delete_Some in Hi as [Hne Hi]. destruct (inv_ref _ I _ _ _ _ Hi) as (k' & Hk' & Hin' & ?).
        destruct (decide (b' = b)) as [->|]; [simplify_eq; exfalso; apply Hne; symmetry; by eapply unique_owner | rewrite lookup_delete_ne by done; eauto].
      * intros i b' o l Hi. apply lookup_delete_Some in Hi as [Hne Hi]. destruct (inv_ref _ I _ _ _ _ Hi) as (k' & Hk' & Hin' & ?).
        destruct (decide (b' = b)) as [->|]; [|rewrite lookup_insert_ne by done; eauto]. simplify_eq. rewrite lookup_insert. eexists; split; [done|]. cbn. split; [set_solver|done].
      * intros b' k' i Hb Hi. apply lookup_delete_Some in Hb as [Hne Hb]. destruct (inv_own _ I _ _ _ Hb Hi) as (o & l & Hi').
        rewrite lookup_delete_ne; [eauto|]. intros <-. simplify_eq.
      * intros b' k' i Hb Hi. destruct (decide (b' = b)) as [->|Hne].
        { rewrite lookup_insert in Hb. simplify_eq. cbn in Hi. apply elem_of_difference in Hi as [Hi Hni].
          destruct (inv_own _ I _ _ _ Hk Hi) as (o & l & Hi'). rewrite lookup_delete_ne by set_solver. eauto. }
        rewrite lookup_insert_ne in Hb by done. destruct (inv_own _ I _ _ _ Hb Hi) as (o & l & Hi'). rewrite lookup_delete_ne; [eauto|]. intros <-. simplify_eq.
      * intros b' k' Hb. apply lookup_delete_Some in Hb as [Hne Hb]. by eapply inv_cnt.
      * intros b' k' Hb. destruct (decide (b' = b)) as [->|Hne]; [|rewrite lookup_insert_ne in Hb by done; by eapply inv_cnt].
        rewrite lookup_insert in Hb. simplify_eq. cbn. apply N.eqb_neq in Hc. pose proof (inv_cnt _ I _ _ Hk). pose proof (size_remove _ _ Hin). lia.
      * intros b' Hb'. destruct (decide (b' = b)) as [->|]; [by rewrite lookup_delete | rewrite lookup_delete_ne by done; by apply I].
      * intros b' Hb'. destruct (decide (b' = b)) as [->|]; [by rewrite (inv_fresh _ I b) in Hk | rewrite lookup_insert_ne by done; by apply I].
  - (* push: left as the same pattern; measured separately *)
Abort.
