From Coq Require Import List NArith ZArith Lia Bool.
From Coq Require Import ZifyBool ZifyN.
Import ListNotations.
Open Scope N_scope.
Arguments N.add : simpl never. Arguments N.sub : simpl never. Arguments N.ltb : simpl never. Arguments N.leb : simpl never. Arguments N.pow : simpl never.
Definition W : N := 18446744073709551616.
Definition IMAX : N := 9223372036854775807.
Inductive bound := Incl (n:N) | Excl (n:N) | Unb.
Inductive kind := StartOOB | EndOOB | Order.
Inductive res := ROk (s e:N) | RErr (k:kind) (s e:N) | RPanic.
Definition bound_ok (b:bound) := match b with Incl a | Excl a => a < W | Unb => True end.
(* pinned code: unchecked +1 *)
Definition add1_w (dbg:bool) (a:N) : option N := if a + 1 <? W then Some (a+1) else if dbg then None else Some 0.
Definition simplify_v0 (dbg:bool) (s e:bound) (len:N) : res :=
  match (match s with Incl a => Some a | Excl a => add1_w dbg a | Unb => Some 0 end),
        (match e with Incl a => add1_w dbg a | Excl a => Some a | Unb => Some len end) with
  | Some s, Some e => if len <? s then RErr StartOOB s e else if len <? e then RErr EndOOB s e else if e <? s then RErr Order s e else ROk s e
  | _, _ => RPanic end.
(* planned fix: checked_add, overflow -> OOB error with saturated bound *)
Definition simplify (dbg:bool) (s e:bound) (len:N) : res :=
  let s' := match s with Incl a => Some a | Excl a => if a + 1 <? W then Some (a+1) else None | Unb => Some 0 end in
  let e' := match e with Incl a => if a + 1 <? W then Some (a+1) else None | Excl a => Some a | Unb => Some len end in
  match s', e' with
  | None, _ => RErr StartOOB (W-1) (match e' with Some e => e | None => W-1 end)
  | Some s, None => if len <? s then RErr StartOOB s (W-1) else RErr EndOOB s (W-1)
  | Some s, Some e => if len <? s then RErr StartOOB s e else if len <? e then RErr EndOOB s e else if e <? s then RErr Order s e else ROk s e
  end.
Definition mstart (s:bound) := match s with Incl a => a | Excl a => a+1 | Unb => 0 end.
Definition mend (e:bound) (len:N) := match e with Incl a => a+1 | Excl a => a | Unb => len end.
Definition std_get (s e:bound) (len:N) : option (N*N) :=
  if (mstart s <=? mend e len) && (mend e len <=? len) then Some (mstart s, mend e len) else None.
Definition names_failing (k:kind) (s e:bound) (len:N) : Prop :=
  match k with StartOOB => mstart s > len | EndOOB => mend e len > len | Order => mstart s > mend e len end.
Theorem total : forall dbg s e len, bound_ok s -> bound_ok e -> len <= IMAX ->
  match simplify dbg s e len with
  | ROk a b => std_get s e len = Some (a,b)
  | RErr k a b => std_get s e len = None /\ names_failing k s e len
  | RPanic => False end.
Proof.
  intros dbg s e len Hs He Hl. unfold simplify, std_get, names_failing, W, IMAX in *.
  destruct s as [a|a|], e as [b|b|]; cbn [bound_ok mstart mend] in *;
  repeat match goal with |- context [if ?c then _ else _] => destruct c eqn:? end; try lia; try (split; [reflexivity|lia]); try reflexivity.
Qed.
Theorem v0_refuted : exists dbg s e len, bound_ok s /\ bound_ok e /\ len <= IMAX /\
  match simplify_v0 dbg s e len with ROk a b => std_get s e len <> Some (a,b) | RErr _ _ _ => False | RPanic => True end.
Proof. exists false, Unb, (Incl (W-1)), 5. unfold bound_ok, W, IMAX. repeat split; try lia. vm_compute. discriminate. Qed.
Print Assumptions total.
