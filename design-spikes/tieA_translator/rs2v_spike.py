#!/usr/bin/env python3
"""Spike: translate the pure-integer Rust subset used by simplify_range_mono / range_mono into Gallina."""
import re, sys

TOK = re.compile(r"\s*(?:(//[^\n]*)|([A-Za-z_][A-Za-z0-9_]*(?:::[A-Za-z_][A-Za-z0-9_]*)*)|(\d+)|(=>|==|!=|<=|>=|&&|\|\||->|[{}()\[\],;:<>+\-*/=?.!&|]))")

def tokenize(src):
    pos, out = 0, []
    while pos < len(src):
        m = TOK.match(src, pos)
        if not m:
            if src[pos:].strip() == "": break
            raise SyntaxError("cannot tokenize at %r" % src[pos:pos+30])
        pos = m.end()
        if m.group(1): continue
        out.append(m.group(2) or m.group(3) or m.group(4))
    return out

def extract_fn(src, name):
    m = re.search(r"fn\s+%s\s*\(" % re.escape(name), src)
    if not m: raise KeyError(name)
    i = src.index("{", m.end()); depth = 0
    # skip the return type's braces? (none in this subset)
    j = i
    while True:
        if src[j] == "{": depth += 1
        elif src[j] == "}":
            depth -= 1
            if depth == 0: break
        j += 1
    header = src[m.start():i]
    return header, src[i+1:j]

class P:
    def __init__(self, toks): self.t, self.i = toks, 0
    def peek(self, k=0): return self.t[self.i+k] if self.i+k < len(self.t) else None
    def eat(self, x=None):
        tok = self.peek()
        if x is not None and tok != x: raise SyntaxError("expected %r got %r at %d" % (x, tok, self.i))
        self.i += 1; return tok
    # block := (let stmt)* expr
    def block(self):
        lets = []
        while self.peek() == "let":
            self.eat("let"); name = self.eat(); self.eat("="); e = self.expr(); self.eat(";")
            lets.append((name, e))
        body = self.expr()
        return ("block", lets, body)
    def expr(self): return self.cmp()
    def cmp(self):
        l = self.add()
        while self.peek() in ("<", ">", "<=", ">=", "==", "!="):
            op = self.eat(); r = self.add(); l = ("bin", op, l, r)
        return l
    def add(self):
        l = self.post()
        while self.peek() in ("+", "-"):
            op = self.eat(); r = self.post(); l = ("bin", op, l, r)
        return l
    def post(self):
        e = self.atom()
        while self.peek() in (".", "?"):
            if self.eat() == "?": e = ("try", e); continue
            m = self.eat(); self.eat("("); args = self.args(")"); e = ("call", m, [e] + args)
        return e
    def args(self, close):
        a = []
        while self.peek() != close:
            a.append(self.expr())
            if self.peek() == ",": self.eat(",")
        self.eat(close); return a
    def atom(self):
        t = self.peek()
        if t == "match":
            self.eat(); scrut = self.expr_nostruct(); self.eat("{"); arms = []
            while self.peek() != "}":
                pat = self.pattern(); self.eat("=>"); e = self.expr(); arms.append((pat, e))
                if self.peek() == ",": self.eat(",")
            self.eat("}"); return ("match", scrut, arms)
        if t == "if":
            self.eat(); c = self.expr_nostruct(); self.eat("{"); a = self.block(); self.eat("}"); self.eat("else")
            if self.peek() == "if": b = self.atom()
            else: self.eat("{"); b = self.block(); self.eat("}")
            return ("if", c, a, b)
        if t == "(":
            self.eat(); items = self.args(")")
            return items[0] if len(items) == 1 else ("tuple", items)
        if t.isdigit(): self.eat(); return ("num", int(t))
        name = self.eat()
        if self.peek() == "(": self.eat("("); return ("ctor", name, self.args(")"))
        if self.peek() == "{" and name[0].isupper():      # struct literal  Range { start, end }
            self.eat("{"); fields = []
            while self.peek() != "}":
                f = self.eat(); fields.append(f)
                if self.peek() == ":": self.eat(":"); self.expr()
                if self.peek() == ",": self.eat(",")
            self.eat("}"); return ("struct", name, fields)
        return ("var", name)
    def expr_nostruct(self):                              # scrutinee / condition: identifiers are never struct literals here
        save = self.t; e = self.cmp(); return e
    def pattern(self):
        name = self.eat()
        if self.peek() == "(": self.eat("("); v = self.eat(); self.eat(")"); return (name, v)
        return (name, None)

def gal(e, ind="  "):
    k = e[0]
    if k == "block":
        s = ""
        for n, x in e[1]:
            if x[0] == "match" and any(has_try(a) for _, a in x[2]):      # let with `?` inside arms: bind in the error monad
                s += f"{ind}ebind ({gal(x, ind+'  ')}) (fun {n} =>\n"
                return s + gal(("block", e[1][e[1].index((n,x))+1:], e[2]), ind) + ")"
            s += f"{ind}let {n} := {gal(x, ind+'  ')} in\n"
        return s + ind + gal(e[2], ind)
    if k == "num": return f"{e[1]}"
    if k == "var": return {"usize::MAX": "UMAX"}.get(e[1], e[1].split("::")[-1])
    if k == "bin":
        a, b = gal(e[2], ind), gal(e[3], ind)
        return {"+": f"(add_w dbg {a} {b})", "-": f"(sub_w dbg {a} {b})", ">": f"({b} <? {a})", "<": f"({a} <? {b})",
                "<=": f"({a} <=? {b})", ">=": f"({b} <=? {a})", "==": f"({a} =? {b})"}[e[1]]
    if k == "match":
        arms = " ".join(f"| {p[0].split('::')[-1]}{' '+p[1] if p[1] else ''} => {gal(a, ind)}" for p, a in e[2])
        return f"match {gal(e[1], ind)} with {arms} end"
    if k == "if": return f"if {gal(e[1], ind)} then {gal(e[2], ind).strip()} else {gal(e[3], ind).strip()}"
    if k == "ctor":
        args = " ".join(f"({gal(a, ind)})" for a in e[2])
        return f"({e[1].split('::')[-1]} {args})"
    if k == "tuple": return "(" + ", ".join(gal(a, ind) for a in e[1]) + ")"
    if k == "struct": return "(" + ", ".join(e[2]) + ")"
    if k == "call":
        if e[1] == "checked_add": return f"(add_chk {gal(e[2][0])} {gal(e[2][1])})"
        if e[1] == "ok_or": return f"(ok_or {gal(e[2][0])} {gal(e[2][1])})"
    if k == "try": return gal(e[1], ind)
    raise NotImplementedError(e)

def has_try(e):
    if not isinstance(e, tuple): return False
    if e and e[0] == "try": return True
    return any(has_try(x) if isinstance(x, tuple) else any(has_try(y) for y in x) if isinstance(x, list) else False for x in e)

if __name__ == "__main__":
    path, fname, out = sys.argv[1], sys.argv[2], sys.argv[3]
    header, body = extract_fn(open(path).read(), fname)
    ast = P(tokenize(body)).block()
    print(f"Definition {out} (dbg : bool) (start end_ : bound) (len : N) :=\n" + gal(ast).replace(" end ", " end_ ").replace("(end ", "(end_ ").replace(" end)", " end_)").replace("= end\n","= end_\n") + ".")
