From Coq Require Import List Arith Lia Bool.
Import ListNotations.

(* ---------- slot-level memory with identity-tracked elements and a panic oracle ---------- *)
Inductive slot := U | E (id : nat).
Record world := { live : list nat; nextid : nat; calls : nat; pan : option nat; bad : bool }.
Record tvec := { slots : list slot; len : nat }.                      (* cap = length slots *)

Definition tick (w : world) : bool * world :=
  (match pan w with Some k => Nat.eqb k (calls w) | None => false end,
   {| live := live w; nextid := nextid w; calls := S (calls w); pan := pan w; bad := bad w |}).
Definition set_bad (w : world) := {| live := live w; nextid := nextid w; calls := calls w; pan := pan w; bad := true |}.
Fixpoint remove1 (x : nat) (l : list nat) := match l with [] => [] | y :: r => if Nat.eqb x y then r else y :: remove1 x r end.
Fixpoint mem (x : nat) (l : list nat) := match l with [] => false | y :: r => Nat.eqb x y || mem x r end.

(* user Clone::clone on a live element: may panic; otherwise yields a fresh live id *)
Definition clone_cb (w : world) : option nat * world :=
  let '(p, w1) := tick w in
  if p then (None, w1) else
  (Some (nextid w1), {| live := nextid w1 :: live w1; nextid := S (nextid w1); calls := calls w1; pan := pan w1; bad := bad w1 |}).
(* user Drop::drop on a slot: uninitialised or already-dropped => UB flag; the element counts as dropped even if its Drop panics *)
Definition drop_cb (w : world) (s : slot) : bool * world :=
  match s with
  | U => (false, set_bad w)
  | E id => if mem id (live w)
            then tick {| live := remove1 id (live w); nextid := nextid w; calls := calls w; pan := pan w; bad := bad w |}
            else (false, set_bad w)
  end.

Fixpoint upd (l : list slot) (i : nat) (x : slot) : list slot :=
  match l, i with [], _ => [] | _ :: r, 0 => x :: r | y :: r, S i => y :: upd r i x end.
(* a write beyond the allocated capacity is UB *)
Definition write (w : world) (v : tvec) (i : nat) (x : slot) : world * tvec :=
  if i <? length (slots v) then (w, {| slots := upd (slots v) i x; len := len v |}) else (set_bad w, v).
Definition set_len (v : tvec) (n : nat) : tvec := {| slots := slots v; len := n |}.
Definition reserve (v : tvec) (n : nat) : tvec :=                      (* any policy with cap >= len + n; here: exact *)
  {| slots := slots v ++ repeat U (len v + n - length (slots v)); len := len v |}.

(* ThinVec::extend_clone as in the pinned source (thin.rs:1065): slots len+1.. first, slot len last *)
Fixpoint ec_v0_loop (w : world) (v : tvec) (base vid i cnt : nat) : bool * world * tvec :=
  match cnt with
  | 0 => (false, w, v)
  | S cnt => match clone_cb w with
             | (None, w1) => (true, w1, v)
             | (Some c, w1) => let '(w2, v2) := write w1 v (base + i) (E c) in
                               ec_v0_loop w2 (set_len v2 (base + i + 1)) base vid (S i) cnt
             end
  end.
Definition extend_clone_v0 (w : world) (v : tvec) (n vid : nat) : bool * world * tvec :=
  let v := reserve v n in let base := len v in
  match ec_v0_loop w v base vid 1 (n - 1) with
  | (true, w1, v1) => let '(_, w2) := drop_cb w1 (E vid) in (true, w2, v1)       (* unwinding drops the by-value argument *)
  | (false, w1, v1) => if n =? 0 then let '(p, w2) := drop_cb w1 (E vid) in (p, w2, v1)
                       else let '(w2, v2) := write w1 v1 base (E vid) in (false, w2, set_len v2 (base + n))
  end.

(* the repaired order: fill upwards, move the argument into the last slot *)
Fixpoint ec_loop (w : world) (v : tvec) (vid cnt : nat) : bool * world * tvec :=
  match cnt with
  | 0 => (false, w, v)
  | S cnt => match clone_cb w with
             | (None, w1) => (true, w1, v)
             | (Some c, w1) => let '(w2, v2) := write w1 v (len v) (E c) in
                               ec_loop w2 (set_len v2 (S (len v))) vid cnt
             end
  end.
Definition extend_clone (w : world) (v : tvec) (n vid : nat) : bool * world * tvec :=
  let v := reserve v n in
  match ec_loop w v vid (n - 1) with
  | (true, w1, v1) => let '(_, w2) := drop_cb w1 (E vid) in (true, w2, v1)
  | (false, w1, v1) => if n =? 0 then let '(p, w2) := drop_cb w1 (E vid) in (p, w2, v1)
                       else let '(w2, v2) := write w1 v1 (len v1) (E vid) in (false, w2, set_len v2 (S (len v1)))
  end.

(* dropping the vector: every slot below len is dropped (a panic in one drop does not stop the others) *)
Fixpoint drop_slots (w : world) (l : list slot) : world := match l with [] => w | s :: r => drop_slots (snd (drop_cb w s)) r end.
Definition drop_vec (w : world) (v : tvec) : world := drop_slots w (firstn (len v) (slots v)).

Definition w0 k := {| live := [0; 1]; nextid := 2; calls := 0; pan := k; bad := false |}.
Definition v0 := {| slots := [E 0; U; U; U; U; U; U; U]; len := 1 |}.
(* the pinned order is unsound: second clone panics, slot 1 is still uninitialised but len = 3 *)
Example resize_v0_refuted :
  let '(p, w, v) := extend_clone_v0 (w0 (Some 1)) v0 3 1 in p = true /\ bad (drop_vec w v) = true.
Proof. vm_compute. split; reflexivity. Qed.
Example resize_fixed_same_input :
  let '(p, w, v) := extend_clone (w0 (Some 1)) v0 3 1 in p = true /\ bad (drop_vec w v) = false /\ live (drop_vec w v) = [].
Proof. vm_compute. repeat split; reflexivity. Qed.
