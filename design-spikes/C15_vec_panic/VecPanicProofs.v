From Coq Require Import List Arith Lia Bool.
Import ListNotations.
Require Import VecPanic.

(* ---------- list plumbing ---------- *)
Lemma mem_In x l : mem x l = true <-> In x l.
Proof. induction l as [|y r IH]; cbn; [intuition discriminate|]. rewrite orb_true_iff, Nat.eqb_eq, IH. intuition. Qed.
Lemma remove1_In y x l : In y (remove1 x l) -> In y l.
Proof. induction l as [|z r IH]; cbn; auto. destruct (Nat.eqb x z); cbn; intuition. Qed.
Lemma remove1_keep y x l : In y l -> y <> x -> In y (remove1 x l).
Proof. induction l as [|z r IH]; cbn; auto. destruct (Nat.eqb x z) eqn:E; cbn; [apply Nat.eqb_eq in E; intuition congruence | intuition]. Qed.
Lemma remove1_NoDup x l : NoDup l -> NoDup (remove1 x l).
Proof. induction 1 as [|z r Hn Hd IH]; cbn; [constructor|]. destruct (Nat.eqb x z); auto. constructor; auto. intros H. apply Hn. eapply remove1_In; eauto. Qed.
Lemma remove1_gone x l : NoDup l -> ~ In x (remove1 x l).
Proof. induction 1 as [|z r Hn Hd IH]; cbn; auto. destruct (Nat.eqb x z) eqn:E; [apply Nat.eqb_eq in E; subst; auto|]. cbn. apply Nat.eqb_neq in E. intuition. Qed.

Lemma upd_length l i x : length (upd l i x) = length l.
Proof. revert i; induction l as [|y r IH]; intros [|i]; cbn; auto. Qed.
Lemma nth_upd_eq l i x : i < length l -> nth i (upd l i x) U = x.
Proof. revert i; induction l as [|y r IH]; intros [|i] H; cbn in *; try lia; auto. apply IH; lia. Qed.
Lemma nth_upd_ne l i j x : i <> j -> nth j (upd l i x) U = nth j l U.
Proof. revert i j; induction l as [|y r IH]; intros [|i] [|j] H; cbn; auto; lia. Qed.
Lemma firstn_upd_ge l i x n : n <= i -> firstn n (upd l i x) = firstn n l.
Proof. revert i n; induction l as [|y r IH]; intros [|i] [|n] H; cbn; auto; try lia. f_equal. apply IH. lia. Qed.
Lemma firstn_upd_snoc l n x : n < length l -> firstn (S n) (upd l n x) = firstn n l ++ [x].
Proof. revert n; induction l as [|y r IH]; intros [|n] H; cbn in *; try lia; auto. f_equal. apply IH. lia. Qed.

Lemma nth_firstn_lt {A} (l : list A) n i d : i < n -> nth i (firstn n l) d = nth i l d.
Proof. revert n i; induction l as [|y r IH]; intros [|n] [|i] H; cbn; auto; try lia. apply IH. lia. Qed.

Definition idof (s : slot) : list nat := match s with E i => [i] | U => [] end.
Definition ids (v : tvec) : list nat := flat_map idof (firstn (len v) (slots v)).

Record wfw (w : world) : Prop := { w_bad : bad w = false; w_nd : NoDup (live w); w_fresh : forall id, In id (live w) -> id < nextid w }.
Record soundv (w : world) (v : tvec) : Prop := {
  v_len : len v <= length (slots v);
  v_init : forall i, i < len v -> exists id, nth i (slots v) U = E id;
  v_live : forall id, In id (ids v) -> In id (live w);
  v_nd : NoDup (ids v) }.

(* ---------- callbacks ---------- *)
Lemma clone_cb_none w w' : clone_cb w = (None, w') -> live w' = live w /\ nextid w' = nextid w /\ bad w' = bad w /\ pan w' = pan w.
Proof. unfold clone_cb, tick. destruct (match pan w with Some k => _ | None => false end); inversion 1; cbn; auto. Qed.
Lemma clone_cb_some w w' c : clone_cb w = (Some c, w') ->
  c = nextid w /\ live w' = c :: live w /\ nextid w' = S c /\ bad w' = bad w /\ pan w' = pan w.
Proof. unfold clone_cb, tick. destruct (match pan w with Some k => _ | None => false end); inversion 1; cbn; auto. Qed.
Lemma drop_cb_live w id p w' : In id (live w) -> drop_cb w (E id) = (p, w') ->
  live w' = remove1 id (live w) /\ nextid w' = nextid w /\ bad w' = bad w /\ pan w' = pan w.
Proof. intros Hin. cbn. apply mem_In in Hin. rewrite Hin. unfold tick. inversion 1; cbn; auto. Qed.

Lemma wfw_drop w id p w' : wfw w -> In id (live w) -> drop_cb w (E id) = (p, w') -> wfw w' /\ ~ In id (live w').
Proof.
  intros [Hb Hn Hf] Hin H. destruct (drop_cb_live _ _ _ _ Hin H) as (Hl & Hx & Hb' & _). split; [split|].
  - congruence.
  - rewrite Hl. now apply remove1_NoDup.
  - intros y Hy. rewrite Hl in Hy. rewrite Hx. apply Hf. eapply remove1_In; eauto.
  - rewrite Hl. now apply remove1_gone.
Qed.

(* ---------- dropping a sound vector never hits the UB flag, whatever the panic oracle says ---------- *)
Lemma drop_slots_safe : forall l w, wfw w -> (forall s, In s l -> exists id, s = E id) ->
  NoDup (flat_map idof l) -> (forall id, In id (flat_map idof l) -> In id (live w)) ->
  wfw (drop_slots w l) /\ (forall id, In id (flat_map idof l) -> ~ In id (live (drop_slots w l))) /\
  (forall id, In id (live (drop_slots w l)) -> In id (live w)).
Proof.
  induction l as [|s r IH]; intros w Hw He Hnd Hl; cbn [drop_slots flat_map].
  - repeat split; auto; apply Hw.
  - destruct (He s (or_introl eq_refl)) as [id ->]. cbn [idof app] in *.
    inversion Hnd as [|? ? Hni Hnd']; subst.
    destruct (drop_cb w (E id)) as [p w1] eqn:Ed. cbn [snd].
    assert (In id (live w)) as Hin by (apply Hl; now left).
    destruct (wfw_drop _ _ _ _ Hw Hin Ed) as [Hw1 Hgone].
    destruct (drop_cb_live _ _ _ _ Hin Ed) as (Hl1 & _).
    destruct (IH w1 Hw1) as (A & B & C); auto.
    { intros s Hs. apply He. now right. }
    { intros y Hy. rewrite Hl1. apply remove1_keep; [apply Hl; now right|]. intros ->. contradiction. }
    split; [exact A|]. split.
    + intros y [<-|Hy]; [intros Hc; apply Hgone; apply C; exact Hc | now apply B].
    + intros y Hy. apply C in Hy. rewrite Hl1 in Hy. eapply remove1_In; eauto.
Qed.

Theorem drop_vec_safe w v : wfw w -> soundv w v -> bad (drop_vec w v) = false.
Proof.
  intros Hw [Hlen Hinit Hlive Hnd]. unfold drop_vec. apply (drop_slots_safe (firstn (len v) (slots v)) w Hw); auto.
  intros s Hs. apply In_nth with (d := U) in Hs as (i & Hi & <-). rewrite firstn_length in Hi.
  assert (i < len v) as Hi' by lia. rewrite nth_firstn_lt by exact Hi'. now apply Hinit.
Qed.

(* ---------- the repaired extend_clone is unwind-safe at every callback position ---------- *)
Lemma ids_snoc v c : len v < length (slots v) ->
  ids (set_len {| slots := upd (slots v) (len v) (E c); len := len v |} (S (len v))) = ids v ++ [c].
Proof. intros H. unfold ids, set_len. cbn [slots len]. rewrite firstn_upd_snoc by exact H. rewrite flat_map_app. cbn. reflexivity. Qed.

Lemma soundv_live_mono w w' v : soundv w v -> (forall id, In id (live w) -> In id (live w')) -> soundv w' v.
Proof. intros [A B C D] H. split; auto. Qed.

Lemma NoDup_snoc (l : list nat) c : NoDup l -> ~ In c l -> NoDup (l ++ [c]).
Proof.
  induction 1 as [|y r Hn Hd IH]; cbn; intros Hc; [constructor; [intros []|constructor]|].
  constructor; [|apply IH; intuition]. rewrite in_app_iff. cbn. intuition.
Qed.

Lemma soundv_push w v c : soundv w v -> len v < length (slots v) -> In c (live w) -> ~ In c (ids v) ->
  soundv w (set_len {| slots := upd (slots v) (len v) (E c); len := len v |} (S (len v))).
Proof.
  intros [A B C D] Hlt Hc Hn. split.
  - cbn. rewrite upd_length. lia.
  - intros i Hi. cbn in Hi |- *. destruct (Nat.eq_dec i (len v)) as [->|Hne].
    + exists c. now apply nth_upd_eq.
    + rewrite nth_upd_ne by auto. apply B. lia.
  - intros id. rewrite ids_snoc by exact Hlt. rewrite in_app_iff. intros [H|[<-|[]]]; auto.
  - rewrite ids_snoc by exact Hlt. now apply NoDup_snoc.
Qed.

Lemma ec_loop_sound : forall cnt w v vid,
  wfw w -> soundv w v -> In vid (live w) -> ~ In vid (ids v) -> len v + cnt < length (slots v) ->
  forall p w' v', ec_loop w v vid cnt = (p, w', v') ->
  wfw w' /\ soundv w' v' /\ In vid (live w') /\ ~ In vid (ids v') /\ length (slots v') = length (slots v) /\
  (p = false -> len v' = len v + cnt).
Proof.
  induction cnt as [|cnt IH]; intros w v vid Hw Hs Hvid Hnv Hcap p w' v' H; cbn [ec_loop] in H.
  - inversion H; subst. repeat split; auto; try apply Hw; try apply Hs; try (intros _; lia).
  - destruct (clone_cb w) as [[c|] w1] eqn:Ec.
    + destruct (clone_cb_some _ _ _ Ec) as (Hc & Hl & Hx & Hb & _).
      assert (~ In c (live w)) as Hfresh by (intros Hin; apply (w_fresh _ Hw) in Hin; lia).
      assert (wfw w1) as Hw1.
      { split; [rewrite Hb; apply Hw | rewrite Hl; constructor; [exact Hfresh|apply Hw] |].
        intros id. rewrite Hl, Hx. intros [<-|Hin]; [lia|]. apply (w_fresh _ Hw) in Hin. lia. }
      assert (len v < length (slots v)) as Hlt by lia.
      unfold write in H. cbn [fst snd] in H. assert (len v <? length (slots v) = true) as Hltb by (apply Nat.ltb_lt; exact Hlt). rewrite Hltb in H.
      set (v3 := set_len {| slots := upd (slots v) (len v) (E c); len := len v |} (S (len v))) in *.
      assert (soundv w1 v) as Hs1 by (eapply soundv_live_mono; [exact Hs|]; intros id Hin; rewrite Hl; now right).
      assert (~ In c (ids v)) as Hcv by (intros Hin; apply Hfresh; now apply (v_live _ _ Hs)).
      assert (soundv w1 v3) as Hs3 by (apply soundv_push; auto; rewrite Hl; now left).
      assert (vid <> c) as Hne by (intros ->; contradiction).
      destruct (IH w1 v3 vid Hw1 Hs3) with (p := p) (w' := w') (v' := v') as (A & B & C & D & E' & F).
      * rewrite Hl. now right.
      * unfold v3. rewrite ids_snoc by exact Hlt. rewrite in_app_iff. cbn. intuition.
      * unfold v3. cbn. rewrite upd_length. lia.
      * exact H.
      * split; [exact A|]. split; [exact B|]. split; [exact C|]. split; [exact D|]. split.
        { rewrite E'. unfold v3. cbn. now rewrite upd_length. }
        intros Hp. specialize (F Hp). unfold v3 in F. cbn in F. lia.
    + inversion H; subst. destruct (clone_cb_none _ _ Ec) as (Hl & Hx & Hb & _).
      repeat split; auto.
      * rewrite Hb; apply Hw. * rewrite Hl; apply Hw. * intros id; rewrite Hl, Hx; apply Hw.
      * apply Hs. * apply Hs. * intros id Hin. rewrite Hl. now apply (v_live _ _ Hs). * apply Hs.
      * now rewrite Hl. * discriminate.
Qed.

Lemma reserve_sound w v n : soundv w v -> soundv w (reserve v n) /\ ids (reserve v n) = ids v /\
  len (reserve v n) = len v /\ len v + n <= length (slots (reserve v n)).
Proof.
  intros [A B C D].
  assert (ids (reserve v n) = ids v) as Hids.
  { unfold reserve, ids. cbn [slots len]. rewrite firstn_app. replace (len v - length (slots v)) with 0 by lia. cbn [firstn]. now rewrite app_nil_r. }
  split; [|split; [exact Hids|split; [reflexivity|]]].
  - split.
    + unfold reserve. cbn [slots len]. rewrite app_length. lia.
    + intros i Hi. unfold reserve in *. cbn [slots len] in *. rewrite app_nth1 by lia. now apply B.
    + rewrite Hids. exact C.
    + rewrite Hids. exact D.
  - unfold reserve. cbn [slots len]. rewrite app_length, repeat_length. lia.
Qed.

Lemma drop_arg_sound w v vid p w' : wfw w -> soundv w v -> In vid (live w) -> ~ In vid (ids v) ->
  drop_cb w (E vid) = (p, w') -> wfw w' /\ soundv w' v.
Proof.
  intros Hw Hs Hin Hn Hd. destruct (wfw_drop _ _ _ _ Hw Hin Hd) as [Hw' _]. split; [exact Hw'|].
  destruct (drop_cb_live _ _ _ _ Hin Hd) as (Hl & _). destruct Hs as [A B C D]. split; auto.
  intros id Hid. rewrite Hl. apply remove1_keep; [now apply C|]. intros ->. contradiction.
Qed.

(* every panic position (the oracle `pan w` is arbitrary), every n, every reachable vector *)
Theorem extend_clone_unwind_safe : forall w v n vid, wfw w -> soundv w v -> In vid (live w) -> ~ In vid (ids v) ->
  forall p w' v', extend_clone w v n vid = (p, w', v') -> wfw w' /\ soundv w' v' /\ bad (drop_vec w' v') = false.
Proof.
  intros w v n vid Hw Hs Hin Hn p w' v' H.
  assert (wfw w' /\ soundv w' v') as [A B]; [|split; [exact A|split; [exact B|now apply drop_vec_safe]]].
  unfold extend_clone in H. destruct (reserve_sound w v n Hs) as (Hsr & Hids & Hlen & Hcap).
  set (vr := reserve v n) in *.
  destruct (ec_loop w vr vid (n - 1)) as [[pl w1] v1] eqn:El.
  destruct n as [|n].
  - cbn in El. inversion El; subst. cbn [Nat.eqb] in H.
    destruct (drop_cb w1 (E vid)) as [pd w2] eqn:Ed. inversion H; subst.
    eapply drop_arg_sound; eauto. now rewrite Hids.
  - replace (S n - 1) with n in El by lia.
    destruct (ec_loop_sound n w vr vid Hw Hsr Hin) with (p := pl) (w' := w1) (v' := v1) as (Hw1 & Hs1 & Hin1 & Hn1 & Hlen1 & Hfull); auto.
    { now rewrite Hids. } { lia. }
    destruct pl.
    + destruct (drop_cb w1 (E vid)) as [pd w2] eqn:Ed. inversion H; subst. eapply drop_arg_sound; eauto.
    + cbn [Nat.eqb] in H. specialize (Hfull eq_refl).
      assert (len v1 < length (slots v1)) as Hlt by lia.
      unfold write in H. assert (len v1 <? length (slots v1) = true) as Hltb by (apply Nat.ltb_lt; exact Hlt). rewrite Hltb in H.
      inversion H; subst. split; [exact Hw1|]. now apply soundv_push.
Qed.
Print Assumptions extend_clone_unwind_safe.
