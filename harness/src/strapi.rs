//! `strapi` driver (C11): HipStr's versions of the str API against the std methods on as_str(), item for item and index for
//! index, forward, backward and mixed; then the source is mutated and dropped and the pieces are re-read; a piece borrows
//! exactly when the source was borrowed (and then from the source's own memory).
use crate::util::*;
use hipstr::string::HipStr;
use hipstr::{Arc, Backend, Rc, Unique};
use std::path::Path;

struct Cx<'a> { sum: &'a mut Summary, bk: &'static str, repr: &'static str }

fn fail(cx: &mut Cx, method: &str, hay: &str, pat: &str, obs: String, exp: String) {
    cx.sum.violation(format!("{{\"what\":{},\"observed\":{},\"expected\":{}}}", jstr(&format!("strapi {} bk={} repr={} haystack={:?} pattern={}", method, cx.bk, cx.repr, hay, pat)), jstr(&obs), jstr(&exp)));
}

/// pieces must be self-sufficient and borrow exactly when the source borrows (from the source's memory)
fn check_pieces<B: Backend>(cx: &mut Cx, method: &str, hay: &str, pat: &str, src: &HipStr<'static, B>, pieces: &[HipStr<'static, B>], expected: &[&str]) {
    cx.sum.evaluations += 1;
    let got: Vec<&str> = pieces.iter().map(|p| p.as_str()).collect();
    if got != expected { fail(cx, method, hay, pat, format!("{:?}", got), format!("{:?}", expected)); return; }
    let range = src.as_str().as_bytes().as_ptr_range();
    // every heap-backed piece holds its own share of the buffer it points into (never a bitwise copy of the source's handle)
    if let Some(sr) = src.verif_bytes().verif_repr() {
        let sharing = pieces.iter().filter(|p| p.verif_bytes().verif_repr().map_or(false, |q| q[0] == sr[0])).count();
        let now = src.verif_bytes().verif_repr().unwrap()[6];
        if sharing > 0 && now < 1 + sharing { fail(cx, method, hay, pat, format!("{} piece(s) point into the source's buffer but its share count is {}", sharing, now), format!(">= {}", 1 + sharing)); }
        for p in pieces { if p.len() > 23 && src.verif_bytes().verif_repr().unwrap()[6] < usize::MAX && cx.bk != "unique" && p.verif_bytes().verif_repr().map_or(true, |q| q[0] != sr[0]) { fail(cx, method, hay, pat, format!("a {}-byte piece of a heap value does not share its buffer", p.len()), "same buffer, no copy".into()); } }
    }
    for p in pieces {
        if p.is_borrowed() != src.is_borrowed() { fail(cx, method, hay, pat, format!("piece {:?} is_borrowed={}", p.as_str(), p.is_borrowed()), format!("is_borrowed={}", src.is_borrowed())); }
        if p.is_borrowed() { let q = p.as_ptr(); if !(range.start <= q && q <= range.end) { fail(cx, method, hay, pat, "borrowed piece outside the source".into(), "inside".into()); } }
        if !p.verif_bytes().is_normalized() { fail(cx, method, hay, pat, "piece not normalised".into(), "normalised".into()); }
    }
}

type HipIt<'a, B> = Box<dyn Iterator<Item = HipStr<'static, B>> + 'a>;
type StdIt<'a> = Box<dyn Iterator<Item = &'a str> + 'a>;
type HipDe<'a, B> = Box<dyn DoubleEndedIterator<Item = HipStr<'static, B>> + 'a>;
type StdDe<'a> = Box<dyn DoubleEndedIterator<Item = &'a str> + 'a>;

/// forward iteration, and the Iterator methods an adaptor may override (nth, last, count, size_hint), against std's iterator.
/// (One compiled copy per backend: the iterators are passed boxed; `nth` / `nth_back` / `size_hint` still dispatch to the
/// concrete iterator's own implementation through the vtable.)
fn iters_fwd<'a, B: Backend>(cx: &mut Cx, name: &str, hay: &str, pat: &str, src: &HipStr<'static, B>, hip: &dyn Fn() -> HipIt<'a, B>, std_: &dyn Fn() -> StdIt<'a>) {
    let exp: Vec<&str> = std_().collect();
    let got: Vec<HipStr<'static, B>> = hip().collect();
    check_pieces(cx, name, hay, pat, src, &got, &exp);
    for k in 0..3usize {
        let (mut a, mut b) = (hip(), std_());
        let (x, y) = (a.nth(k), b.nth(k));
        let (mut got, mut exp): (Vec<_>, Vec<_>) = (x.into_iter().collect(), y.into_iter().collect());
        got.extend(a); exp.extend(b);
        check_pieces(cx, &format!("{}.nth({}) then the rest", name, k), hay, pat, src, &got, &exp);
    }
    { let (g, e): (Vec<_>, Vec<_>) = (hip().last().into_iter().collect(), std_().last().into_iter().collect()); check_pieces(cx, &format!("{}.last", name), hay, pat, src, &g, &e); }
    { let n = std_().count(); let c = hip().count(); let (lo, hi) = hip().size_hint();
      if c != n || lo > n || hi.map_or(false, |h| h < n) { fail(cx, &format!("{}.count/size_hint", name), hay, pat, format!("count {} size_hint ({}, {:?})", c, lo, hi), format!("count {} within the hint", n)); } }
}
/// both directions: rev, alternating ends, nth_back, rev().nth, rev().skip().step_by(), rfold
fn iters_both<'a, B: Backend>(cx: &mut Cx, name: &str, hay: &str, pat: &str, src: &HipStr<'static, B>, hip: &dyn Fn() -> HipDe<'a, B>, std_: &dyn Fn() -> StdDe<'a>) {
    iters_fwd(cx, name, hay, pat, src, &|| Box::new(hip()), &|| Box::new(std_()));
    let exp: Vec<&str> = std_().rev().collect();
    let got: Vec<HipStr<'static, B>> = hip().rev().collect();
    check_pieces(cx, &format!("{}.rev", name), hay, pat, src, &got, &exp);
    let (mut a, mut b) = (hip(), std_());
    let (mut got, mut exp) = (vec![], vec![]);
    let mut front = true;
    loop { let (x, y) = if front { (a.next(), b.next()) } else { (a.next_back(), b.next_back()) }; front = !front; match (x, y) { (Some(x), Some(y)) => { got.push(x); exp.push(y); } (None, None) => break, (x, y) => { got.extend(x); exp.extend(y); break; } } }
    check_pieces(cx, &format!("{}.mixed", name), hay, pat, src, &got, &exp);
    for k in 0..3usize {
        let (mut a, mut b) = (hip(), std_());
        let (x, y) = (a.nth_back(k), b.nth_back(k));
        let (mut got, mut exp): (Vec<_>, Vec<_>) = (x.into_iter().collect(), y.into_iter().collect());
        got.extend(a.nth(k)); exp.extend(b.nth(k)); got.extend(a.nth_back(0)); exp.extend(b.nth_back(0)); got.extend(a); exp.extend(b);
        check_pieces(cx, &format!("{}.nth_back({k}), nth({k}), nth_back(0), rest", name), hay, pat, src, &got, &exp);
        let (got, exp): (Vec<_>, Vec<_>) = (hip().rev().nth(k).into_iter().collect(), std_().rev().nth(k).into_iter().collect());
        check_pieces(cx, &format!("{}.rev().nth({})", name, k), hay, pat, src, &got, &exp);
    }
    { let (got, exp): (Vec<_>, Vec<_>) = (hip().rev().skip(1).step_by(2).collect(), std_().rev().skip(1).step_by(2).collect()); check_pieces(cx, &format!("{}.rev().skip(1).step_by(2)", name), hay, pat, src, &got, &exp); }
    { let (got, exp): (Vec<_>, Vec<_>) = (hip().rfold(vec![], |mut v, x| { v.push(x); v }), std_().rfold(vec![], |mut v, x| { v.push(x); v })); check_pieces(cx, &format!("{}.rfold", name), hay, pat, src, &got, &exp); }
}
macro_rules! iters {
    ($cx:expr, $name:expr, $hay:expr, $patdesc:expr, $src:expr, $hip:expr, $std:expr) => {{ iters_fwd($cx, $name, $hay, $patdesc, $src, &|| Box::new($hip), &|| Box::new($std)); }};
}
macro_rules! iters_de {
    ($cx:expr, $name:expr, $hay:expr, $patdesc:expr, $src:expr, $hip:expr, $std:expr) => {{ iters_both($cx, $name, $hay, $patdesc, $src, &|| Box::new($hip), &|| Box::new($std)); }};
}
macro_rules! indexed {
    ($cx:expr, $name:expr, $hay:expr, $patdesc:expr, $src:expr, $hip:expr, $std:expr) => {{
        let exp: Vec<(usize, &str)> = $std.collect();
        let got: Vec<(usize, HipStr<'static, _>)> = $hip.collect();
        let gi: Vec<usize> = got.iter().map(|p| p.0).collect(); let ei: Vec<usize> = exp.iter().map(|p| p.0).collect();
        if gi != ei { fail($cx, $name, $hay, $patdesc, format!("indices {:?}", gi), format!("{:?}", ei)); }
        let gp: Vec<HipStr<'static, _>> = got.into_iter().map(|p| p.1).collect(); let ep: Vec<&str> = exp.iter().map(|p| p.1).collect();
        check_pieces($cx, $name, $hay, $patdesc, $src, &gp, &ep);
    }};
}

macro_rules! with_pattern {
    ($cx:expr, $hay:expr, $src:expr, $pd:expr, $p:expr, reverse: $rev:tt, de: $de:tt) => {{
        let s: &str = $hay; let h = $src;
        iters!($cx, "split", s, $pd, h, h.split($p), s.split($p));
        iters!($cx, "split_inclusive", s, $pd, h, h.split_inclusive($p), s.split_inclusive($p));
        iters!($cx, "split_terminator", s, $pd, h, h.split_terminator($p), s.split_terminator($p));
        for n in 0..4usize { iters!($cx, "splitn", s, &format!("{} n={}", $pd, n), h, h.splitn(n, $p), s.splitn(n, $p)); }
        iters!($cx, "matches", s, $pd, h, h.matches($p), s.matches($p));
        indexed!($cx, "match_indices", s, $pd, h, h.match_indices($p), s.match_indices($p));
        { let e = s.split_once($p); let g = h.split_once($p); $cx.sum.evaluations += 1;
          match (g, e) { (Some((a, b)), Some((x, y))) => check_pieces($cx, "split_once", s, $pd, h, &[a, b], &[x, y]), (None, None) => {}, (g, e) => fail($cx, "split_once", s, $pd, format!("{:?}", g.map(|(a, b)| (a.to_string(), b.to_string()))), format!("{:?}", e)) } }
        check_pieces($cx, "trim_start_matches", s, $pd, h, &[h.trim_start_matches($p)], &[s.trim_start_matches($p)]);
        { let e = s.strip_prefix($p); let g = h.strip_prefix($p); match (g, e) { (Some(a), Some(x)) => check_pieces($cx, "strip_prefix", s, $pd, h, &[a], &[x]), (None, None) => {}, _ => fail($cx, "strip_prefix", s, $pd, "Some/None differs".into(), format!("{:?}", e)) } }
        with_pattern!(@rev $rev, $cx, s, h, $pd, $p);
        with_pattern!(@de $de, $cx, s, h, $pd, $p);
    }};
    (@rev true, $cx:expr, $s:expr, $h:expr, $pd:expr, $p:expr) => {{
        let (s, h) = ($s, $h);
        iters!($cx, "rsplit", s, $pd, h, h.rsplit($p), s.rsplit($p));
        iters!($cx, "rsplit_terminator", s, $pd, h, h.rsplit_terminator($p), s.rsplit_terminator($p));
        for n in 0..4usize { iters!($cx, "rsplitn", s, &format!("{} n={}", $pd, n), h, h.rsplitn(n, $p), s.rsplitn(n, $p)); }
        iters!($cx, "rmatches", s, $pd, h, h.rmatches($p), s.rmatches($p));
        indexed!($cx, "rmatch_indices", s, $pd, h, h.rmatch_indices($p), s.rmatch_indices($p));
        { let e = s.rsplit_once($p); let g = h.rsplit_once($p); match (g, e) { (Some((a, b)), Some((x, y))) => check_pieces($cx, "rsplit_once", s, $pd, h, &[a, b], &[x, y]), (None, None) => {}, _ => fail($cx, "rsplit_once", s, $pd, "Some/None differs".into(), format!("{:?}", e)) } }
        check_pieces($cx, "trim_end_matches", s, $pd, h, &[h.trim_end_matches($p)], &[s.trim_end_matches($p)]);
        { let e = s.strip_suffix($p); let g = h.strip_suffix($p); match (g, e) { (Some(a), Some(x)) => check_pieces($cx, "strip_suffix", s, $pd, h, &[a], &[x]), (None, None) => {}, _ => fail($cx, "strip_suffix", s, $pd, "Some/None differs".into(), format!("{:?}", e)) } }
    }};
    (@rev false, $cx:expr, $s:expr, $h:expr, $pd:expr, $p:expr) => {};
    (@de true, $cx:expr, $s:expr, $h:expr, $pd:expr, $p:expr) => {{
        let (s, h) = ($s, $h);
        iters_de!($cx, "split", s, $pd, h, h.split($p), s.split($p));
        iters_de!($cx, "split_inclusive", s, $pd, h, h.split_inclusive($p), s.split_inclusive($p));
        iters_de!($cx, "split_terminator", s, $pd, h, h.split_terminator($p), s.split_terminator($p));
        iters_de!($cx, "matches", s, $pd, h, h.matches($p), s.matches($p));
        check_pieces($cx, "trim_matches", s, $pd, h, &[h.trim_matches($p)], &[s.trim_matches($p)]);
    }};
    (@de false, $cx:expr, $s:expr, $h:expr, $pd:expr, $p:expr) => {};
}

fn one<B: Backend>(cx: &mut Cx, hay: &str, src: &HipStr<'static, B>) {
    breadcrumb(&format!("strapi bk={} repr={} haystack={:?}", cx.bk, cx.repr, hay));
    // a panic of the implementation (std would not panic on any of these calls) is a violation on this haystack
    let r = std::panic::catch_unwind(std::panic::AssertUnwindSafe(|| one_inner::<B>(cx, hay, src)));
    if let Err(e) = r {
        let msg = if let Some(s) = e.downcast_ref::<String>() { s.clone() } else if let Some(s) = e.downcast_ref::<&str>() { s.to_string() } else { "<panic>".into() };
        fail(cx, "(some method of the inherited str API)", hay, "-", format!("panic: {}", msg), "no panic: std does not panic on these calls".into());
    }
}
fn one_inner<B: Backend>(cx: &mut Cx, hay: &str, src: &HipStr<'static, B>) {
    assert_eq!(src.as_str(), hay);
    let s = hay;
    // pattern-free methods
    check_pieces(cx, "trim", s, "-", src, &[src.trim()], &[s.trim()]);
    check_pieces(cx, "trim_start", s, "-", src, &[src.trim_start()], &[s.trim_start()]);
    check_pieces(cx, "trim_end", s, "-", src, &[src.trim_end()], &[s.trim_end()]);
    iters_de!(cx, "split_whitespace", s, "-", src, src.split_whitespace(), s.split_whitespace());
    iters_de!(cx, "split_ascii_whitespace", s, "-", src, src.split_ascii_whitespace(), s.split_ascii_whitespace());
    iters_de!(cx, "lines", s, "-", src, src.lines(), s.lines());
    // case conversions (new values equal to std's)
    cx.sum.evaluations += 4;
    if src.to_lowercase().as_str() != s.to_lowercase() || src.to_uppercase().as_str() != s.to_uppercase() { fail(cx, "to_lowercase/uppercase", s, "-", "differs".into(), "std".into()); }
    if src.to_ascii_lowercase().as_str() != s.to_ascii_lowercase() || src.to_ascii_uppercase().as_str() != s.to_ascii_uppercase() { fail(cx, "to_ascii_*", s, "-", "differs".into(), "std".into()); }
    // patterns
    with_pattern!(cx, s, src, "char 'a'", 'a', reverse: true, de: true);
    with_pattern!(cx, s, src, "char ' '", ' ', reverse: true, de: true);
    with_pattern!(cx, s, src, "char U+00E9", '\u{e9}', reverse: true, de: true);
    with_pattern!(cx, s, src, "&str \"a\"", "a", reverse: true, de: false);
    with_pattern!(cx, s, src, "&str \"ab\"", "ab", reverse: true, de: false);
    with_pattern!(cx, s, src, "&str \"aa\"", "aa", reverse: true, de: false);
    with_pattern!(cx, s, src, "&str \"\"", "", reverse: true, de: false);
    let owned = String::from("b ");
    with_pattern!(cx, s, src, "&String \"b \"", &owned, reverse: true, de: false);
    let chars: &[char] = &['a', '\n'];
    with_pattern!(cx, s, src, "&[char] ['a','\\n']", chars, reverse: true, de: true);
    with_pattern!(cx, s, src, "&[char; 2] ['b',' ']", &['b', ' '], reverse: true, de: false);
    with_pattern!(cx, s, src, "closure is_whitespace", |c: char| c.is_whitespace(), reverse: true, de: true);
}

fn self_sufficiency<B: Backend>(cx: &mut Cx, hay: &str, mk: &dyn Fn(&str) -> HipStr<'static, B>) {
    // collect pieces, then mutate and drop the source; the pieces must be unchanged
    let mut src = mk(hay);
    let pieces: Vec<HipStr<'static, B>> = src.split(' ').chain(src.lines()).chain(src.matches('a')).chain(std::iter::once(src.trim())).collect();
    let before: Vec<String> = pieces.iter().map(|p| p.as_str().to_string()).collect();
    src.push_str(" appended text that is long enough to reallocate the buffer........");
    src.make_ascii_uppercase();
    src.truncate(0);
    drop(src);
    cx.sum.evaluations += 1;
    let after: Vec<String> = pieces.iter().map(|p| p.as_str().to_string()).collect();
    if before != after { fail(cx, "pieces after mutating and dropping the source", hay, "-", format!("{:?}", after), format!("{:?}", before)); }
}

fn drive<B: Backend>(sum: &mut Summary, bk: &'static str, tier: &str) {
    let syms = ["a", "b", " ", "\n", "\u{e9}", "\u{1F980}", "\r\n"];
    let maxlen = if tier == "thorough" { 4 } else { 3 };
    let mut hays: Vec<String> = vec![String::new()];
    let mut frontier = vec![String::new()];
    for _ in 0..maxlen { let mut next = vec![]; for s in &frontier { for c in syms { next.push(format!("{}{}", s, c)); } } hays.extend(next.iter().cloned()); frontier = next; }
    // long pieces (more than 23 bytes between separators): adopted pieces of a heap value stay on the heap and share its buffer
    hays.extend(["xxxxxxxxxxxxxxxxxxxxxxxxxxxxxx yyyyyyyyyyyyyyyyyyyyyyyyyyyyyyyyyy\nzzzzzzzzzzzzzzzzzzzzzzzzzzzzzzzzza\u{e9}\u{e9}\u{e9}\u{e9}\u{e9}\u{e9}\u{e9}\u{e9}\u{e9}\u{e9}\u{e9}\u{e9}\u{e9}b wwwwwwwwwwwwwwwwwwwwwwwwwwwwww".to_string(),
        "first line, which is long enough\r\nsecond line, also longer than an inline value\nthird".to_string(),
        // case conversions with context rules and expansions: final sigma, sharp s, dotted I, ligature, titlecase digraphs
        "\u{391}\u{3a3} \u{3a3}\u{391}\u{3a3}".to_string(), "stra\u{df}e \u{130}i \u{fb01}".to_string(), "\u{1c5}\u{1f2} \u{1f88}\u{1ffc}".to_string()]);
    hays.extend(["  a b  a ".to_string(), "aXbXc".replace('X', "\u{e9}"), "line one\nline two\r\nlast".to_string(), "aaaa".to_string(), " \u{1F980} a\u{1F980}b ".to_string()]);
    for (i, hay) in hays.iter().enumerate() {
        // three representations of the same text; heap values get a long tail so that they stay on the heap
        let leaked: &'static str = Box::leak(hay.clone().into_boxed_str());
        { let mut cx = Cx { sum, bk, repr: "borrowed" }; one::<B>(&mut cx, leaked, &HipStr::borrowed(leaked)); }
        if hay.len() <= 23 && (i % 3 == 0 || hay.len() <= 2) { let mut cx = Cx { sum, bk, repr: "inline" }; one::<B>(&mut cx, leaked, &HipStr::from(leaked)); }
        if i % 5 == 0 || hay.len() > 23 {
            let long = format!("{} a b \u{e9} tail that makes the value heap-backed", hay);
            let h = HipStr::<B>::from(long.clone());
            let mut cx = Cx { sum, bk, repr: "heap" }; one::<B>(&mut cx, Box::leak(long.into_boxed_str()), &h);
        }
        if i % 5 == 0 || hay.len() > 23 {
            // a heap value that is itself a view starting inside its buffer (and ending before the buffer's end)
            let long = format!("{} a b \u{e9} tail that makes the value heap-backed", hay);
            let padded = format!("0123456789!{}~trailer", long);
            let whole = HipStr::<B>::from(padded);
            let view = whole.slice(11..11 + long.len());
            let mut cx = Cx { sum, bk, repr: "heap-view" }; one::<B>(&mut cx, Box::leak(long.into_boxed_str()), &view);
        }
        if i % 7 == 0 {
            let mut cx = Cx { sum, bk, repr: "borrowed" }; self_sufficiency::<B>(&mut cx, leaked, &|s: &str| HipStr::borrowed(Box::leak(s.to_string().into_boxed_str())));
            let mut cx = Cx { sum, bk, repr: "owned" }; self_sufficiency::<B>(&mut cx, leaked, &|s: &str| HipStr::from(format!("{} {}", s, "x".repeat(30))));
        }
    }
    // case conversions of every Unicode scalar value, alone and after a letter (one backend: the conversion does not depend on it)
    if bk == "arc" {
        let mut buf = String::new();
        for c in (0..=0x10FFFFu32).filter_map(char::from_u32) {
            for ctx in [false, true] {
                if ctx && !(c.is_alphabetic()) { continue; }
                buf.clear(); if ctx { buf.push('A'); } buf.push(c);
                let h = HipStr::<B>::from(buf.as_str());
                sum.evaluations += 2;
                let (lo, up) = (h.to_lowercase(), h.to_uppercase());
                if lo.as_str() != buf.to_lowercase() || up.as_str() != buf.to_uppercase() {
                    sum.violation(format!("{{\"what\":{},\"observed\":{},\"expected\":{}}}", jstr(&format!("strapi to_lowercase/to_uppercase bk={} text={:?} (U+{:04X})", bk, buf, c as u32)),
                        jstr(&format!("{:?} / {:?}", lo.as_str(), up.as_str())), jstr(&format!("{:?} / {:?}", buf.to_lowercase(), buf.to_uppercase()))));
                }
            }
        }
    }
    // from_utf16 / from_utf16_lossy
    for v in [vec![], vec![0x61u16, 0xe9, 0x20ac], vec![0xD83E, 0xDD80], vec![0xD800], vec![0x61, 0xDC00, 0x62], vec![0xFEFF, 0x61], vec![0xFEFF], vec![0x61, 0xFEFF], vec![0xFFFE, 0x61], vec![0xFEFF, 0xFEFF, 0xD800], vec![0, 0x61], (0..40u16).map(|i| 0x61 + i).collect::<Vec<u16>>()] {
        sum.evaluations += 2;
        let e = String::from_utf16(&v).ok(); let g = HipStr::<B>::from_utf16(&v).ok().map(|h| h.to_string());
        if e != g { sum.violation(format!("{{\"what\":{},\"observed\":{},\"expected\":{}}}", jstr(&format!("strapi from_utf16 bk={} {:?}", bk, v)), jstr(&format!("{:?}", g)), jstr(&format!("{:?}", e)))); }
        if HipStr::<B>::from_utf16_lossy(&v).as_str() != String::from_utf16_lossy(&v) { sum.violation(format!("{{\"what\":{},\"observed\":\"differs\",\"expected\":\"std\"}}", jstr(&format!("strapi from_utf16_lossy bk={} {:?}", bk, v)))); }
    }
    sum.nontrivial += hays.len() as u64;
}

pub fn run(_out_dir: &Path, tier: &str, _seed: u64, _rest: &[String]) {
    let mut sum = Summary::default();
    drive::<Arc>(&mut sum, "arc", tier);
    drive::<Rc>(&mut sum, "rc", tier);
    drive::<Unique>(&mut sum, "unique", tier);
    sum.samples.push(jstr("every method (trim*, split*, rsplit*, splitn/rsplitn n=0..3, split_once/rsplit_once, matches/rmatches, match_indices/rmatch_indices, trim_*matches, strip_prefix/suffix, split_whitespace, split_ascii_whitespace, lines, case conversions) x haystacks over {a, b, ' ', '\\n', e-acute, crab, '\\r\\n'} x patterns {char x3, &str x4 incl. empty and overlapping, &String, &[char], &[char; 2], closure} x {forward, backward, mixed} x {borrowed, inline, heap}"));
    sum.print();
}
