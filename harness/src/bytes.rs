//! `bytes` driver (C01 C02 C03 C07 C09): operation sequences on HipByt / HipStr / HipOsStr / HipPath, every backend.
//! (HipOsStr and HipPath are unvalidated bytes on unix: their cases are replayed on the byte-string model, `TByt`; `wrappers_api`
//! adds the std-differential checks of their own surface and of the conversions between the four types and std.)
//!
//! After every op the driver (1) checks the property oracles on the real implementation -- content of every live handle against a
//! std shadow value (`Vec<u8>`/`String` semantics), outcome against std's outcome, views inside live allocator blocks, allocator
//! errors -- and (2) prints the outcome, the hook-level observation of every live handle and the allocator counters as a Coq
//! case step, so that `coqc` compares them with the model (correspondence).
use crate::alloc;
use crate::util::*;
use hipstr::bytes::HipByt;
use hipstr::os_string::HipOsStr;
use hipstr::path::HipPath;
use hipstr::string::HipStr;
use hipstr::{Arc, Backend, Rc, Unique};
use std::borrow::Cow;
use std::ffi::{OsStr, OsString};
use std::fmt::Write as _;
use std::ops::Bound;
use std::os::unix::ffi::{OsStrExt, OsStringExt};
use std::panic::AssertUnwindSafe;
use std::path::{Path, PathBuf};

pub const DIG_MOD: u128 = 2305843009213693951;
pub fn digest(b: &[u8]) -> u128 {
    let mut a: u128 = 7;
    for &x in b { a = (a * 257 + x as u128 + 1) % DIG_MOD; }
    a
}

#[derive(Clone, Debug)]
pub enum VOp { Push(u8), Extend(Vec<u8>), Truncate(usize), Clear, Reserve(usize), ShrinkFit }

#[derive(Clone, Debug)]
pub enum Op {
    New, Inline(Vec<u8>), TryInline(Vec<u8>), WithCapacity(usize), Borrowed(Vec<u8>), FromSlice(Vec<u8>), FromVec(Vec<u8>, usize), FromUtf8(Vec<u8>),
    Clone(usize), Slice(usize, Bound<usize>, Bound<usize>), TrySlice(usize, Bound<usize>, Bound<usize>), SliceRef(usize, usize, usize), SliceRefU(usize, usize, usize), SliceRefForeign(usize, bool),
    Push(usize, u32), PushSlice(usize, Vec<u8>), Pop(usize), Truncate(usize, usize), Clear(usize), ShrinkTo(usize, usize), ShrinkToFit(usize),
    AsMutWrite(usize, usize, u8), ToMutWrite(usize, usize, u8), MakeAscii(usize, bool), ToAscii(usize, bool), Repeat(usize, usize),
    Mutate(usize, Vec<VOp>, bool),
    IntoOwned(usize), IntoVec(usize), VecFrom(usize), IntoBorrowed(usize), AsBorrowed(usize),
    Drop(usize), ForceCount(usize, usize), RestoreCount(usize),
}

fn cb(b: Bound<usize>) -> String {
    match b { Bound::Included(n) => format!("(Incl {})", n), Bound::Excluded(n) => format!("(Excl {})", n), Bound::Unbounded => "Unb".into() }
}
impl VOp {
    fn coq(&self) -> String {
        match self {
            VOp::Push(b) => format!("VPush {}", b), VOp::Extend(x) => format!("VExtend {}", coq_bytes(x)), VOp::Truncate(n) => format!("VTruncate {}", n),
            VOp::Clear => "VClear".into(), VOp::Reserve(n) => format!("VReserve {}", n), VOp::ShrinkFit => "VShrinkFit".into(),
        }
    }
}
impl Op {
    pub fn coq(&self) -> String {
        use Op::*;
        match self {
            New => "ONew".into(), Inline(x) => format!("OInline {}", coq_bytes(x)), TryInline(x) => format!("OTryInline {}", coq_bytes(x)),
            WithCapacity(n) => format!("OWithCapacity {}", n), Borrowed(x) => format!("OBorrowed {}", coq_bytes(x)), FromSlice(x) => format!("OFromSlice {}", coq_bytes(x)),
            FromVec(x, k) => format!("OFromVec {} {}", coq_bytes(x), k), FromUtf8(x) => format!("OFromUtf8 {}", coq_bytes(x)),
            Clone(h) => format!("OClone {}", h), Slice(h, s, e) => format!("OSlice {} {} {}", h, cb(*s), cb(*e)), TrySlice(h, s, e) => format!("OTrySlice {} {} {}", h, cb(*s), cb(*e)),
            SliceRef(h, o, n) | SliceRefU(h, o, n) => format!("OSliceRef {} {} {}", h, o, n), SliceRefForeign(h, t) => format!("OSliceRefForeign {} {}", h, t),
            Push(h, c) => format!("OPush {} {}", h, c), PushSlice(h, x) => format!("OPushSlice {} {}", h, coq_bytes(x)), Pop(h) => format!("OPop {}", h),
            Truncate(h, n) => format!("OTruncate {} {}", h, n), Clear(h) => format!("OClear {}", h), ShrinkTo(h, n) => format!("OShrinkTo {} {}", h, n), ShrinkToFit(h) => format!("OShrinkToFit {}", h),
            AsMutWrite(h, i, b) => format!("OAsMutWrite {} {} {}", h, i, b), ToMutWrite(h, i, b) => format!("OToMutWrite {} {} {}", h, i, b),
            MakeAscii(h, u) => format!("OMakeAscii {} {}", h, u), ToAscii(h, u) => format!("OToAscii {} {}", h, u), Repeat(h, k) => format!("ORepeat {} {}", h, k),
            Mutate(h, sc, leak) => format!("OMutate {} [{}] {}", h, sc.iter().map(|v| v.coq()).collect::<Vec<_>>().join("; "), leak),
            IntoOwned(h) => format!("OIntoOwned {}", h), IntoVec(h) => format!("OIntoVec {}", h), VecFrom(h) => format!("OVecFrom {}", h),
            IntoBorrowed(h) => format!("OIntoBorrowed {}", h), AsBorrowed(h) => format!("OAsBorrowed {}", h),
            Drop(h) => format!("ODrop {}", h), ForceCount(h, k) => format!("OForceCount {} {}", h, k), RestoreCount(h) => format!("ORestoreCount {}", h),
        }
    }
}

#[derive(Clone, Debug, PartialEq)]
pub enum Out { Unit, New(usize), None_, Some_(Vec<u8>), Err(&'static str, usize, usize), Panic, Skip, Vec_(Vec<u8>, usize) }
impl Out {
    fn coq(&self) -> String {
        match self {
            Out::Unit => "UUnit".into(), Out::New(h) => format!("(UNew {})", h), Out::None_ => "UNone".into(), Out::Some_(v) => format!("(USome {})", coq_bytes(v)),
            Out::Err(k, a, b) => format!("(UErr {} {} {})", k, a, b), Out::Panic => "UPanic".into(), Out::Skip => "USkip".into(), Out::Vec_(v, c) => format!("(UVec {} {})", coq_bytes(v), c),
        }
    }
}

/// The type under test of a case. `Os` and `Path` are unvalidated bytes on unix: the model type of their cases is `TByt`.
#[derive(Clone, Copy, Debug, PartialEq, Eq)]
pub enum Ty { Byt, Str, Os, Path }
pub const ALL_TY: [Ty; 4] = [Ty::Byt, Ty::Str, Ty::Os, Ty::Path];
impl Ty {
    pub fn is_str(self) -> bool { self == Ty::Str }
    pub fn is_wrapper(self) -> bool { matches!(self, Ty::Os | Ty::Path) }
    pub fn name(self) -> &'static str { match self { Ty::Byt => "byt", Ty::Str => "str", Ty::Os => "os", Ty::Path => "path" } }
    pub fn coq(self) -> &'static str { if self.is_str() { "TStr" } else { "TByt" } }
    fn idx(self) -> u64 { match self { Ty::Byt => 0, Ty::Str => 1, Ty::Os => 2, Ty::Path => 3 } }
    /// Does the type have a counterpart of `op`? (Byt / Str: everything the driver ever generated; the type-specific ops of the other
    /// one are skipped by `exec`, as before.)
    pub fn supports(self, op: &Op) -> bool {
        use Op::*;
        if !self.is_wrapper() { return true; }
        match op {
            New | Borrowed(_) | FromSlice(_) | FromVec(..) | Clone(_) | ShrinkTo(..) | ShrinkToFit(_) | IntoOwned(_) | IntoVec(_) | VecFrom(_)
            | IntoBorrowed(_) | AsBorrowed(_) | Drop(_) | ForceCount(..) | RestoreCount(_) => true,
            // no truncate on OsString / PathBuf
            Mutate(_, script, _) => !script.iter().any(|v| matches!(v, VOp::Truncate(_))),
            // HipPath has neither with_capacity, nor slice_ref*, nor any direct append
            WithCapacity(_) | SliceRef(..) | SliceRefU(..) | SliceRefForeign(..) | PushSlice(..) => self == Ty::Os,
            Inline(_) | TryInline(_) | FromUtf8(_) | Slice(..) | TrySlice(..) | Push(..) | Pop(_) | Truncate(..) | Clear(_) | AsMutWrite(..)
            | ToMutWrite(..) | MakeAscii(..) | ToAscii(..) | Repeat(..) => false,
        }
    }
}

pub enum H<B: Backend> { Byt(HipByt<'static, B>), Str(HipStr<'static, B>), Os(HipOsStr<'static, B>), Path(HipPath<'static, B>) }
impl<B: Backend> H<B> {
    fn raw(&self) -> &HipByt<'static, B> { match self { H::Byt(b) => b, H::Str(s) => s.verif_bytes(), H::Os(s) => s.verif_bytes(), H::Path(s) => s.verif_bytes() } }
}
fn os(b: &[u8]) -> &OsStr { OsStr::from_bytes(b) }
fn pa(b: &[u8]) -> &Path { Path::new(OsStr::from_bytes(b)) }

pub struct Pool<B: Backend> {
    pub ty: Ty,
    pub hs: Vec<Option<H<B>>>,
    pub shadow: Vec<Option<Vec<u8>>>,          // the std model of each handle (oracle of C01)
    pub srcs: Vec<&'static [u8]>,              // leaked borrow sources, each with one trailing pad byte
    pub src_copy: Vec<Vec<u8>>,                // their expected content (C02: never written)
    pub viol: Vec<String>,
    pub unique_backend: bool,
}

fn kstr(k: hipstr::string::SliceErrorKind) -> &'static str {
    use hipstr::string::SliceErrorKind::*;
    match k { StartGreaterThanEnd => "SStartGreaterThanEnd", StartOutOfBounds => "SStartOutOfBounds", EndOutOfBounds => "SEndOutOfBounds", StartNotACharBoundary => "SStartNotACharBoundary", EndNotACharBoundary => "SEndNotACharBoundary" }
}
fn kbyt(k: hipstr::bytes::SliceErrorKind) -> &'static str {
    use hipstr::bytes::SliceErrorKind::*;
    match k { StartGreaterThanEnd => "SStartGreaterThanEnd", StartOutOfBounds => "SStartOutOfBounds", EndOutOfBounds => "SEndOutOfBounds" }
}
fn st(b: &[u8]) -> &str { std::str::from_utf8(b).expect("harness: str case with invalid utf8") }

impl<B: Backend> Pool<B> {
    pub fn new(ty: Ty, unique_backend: bool) -> Self {
        Pool { ty, hs: vec![], shadow: vec![], srcs: vec![], src_copy: vec![], viol: vec![], unique_backend }
    }
    fn add(&mut self, h: H<B>, sh: Vec<u8>) -> Out {
        self.hs.push(Some(h)); self.shadow.push(Some(sh)); Out::New(self.hs.len() - 1)
    }
    fn add_src(&mut self, x: &[u8]) -> &'static [u8] {
        let mut v = x.to_vec(); v.push(0xEE);
        let leaked: &'static [u8] = Box::leak(v.into_boxed_slice());
        self.srcs.push(leaked); self.src_copy.push(leaked.to_vec());
        &leaked[..x.len()]
    }
    fn live(&self, h: usize) -> bool { h < self.hs.len() && self.hs[h].is_some() }
    fn v(&mut self, s: String) { if self.viol.len() < 20 { self.viol.push(s); } }

    /// Executes one op on the implementation (inside an allocator window, under catch_unwind) and on the std shadow.
    pub fn exec(&mut self, op: &Op) -> Out {
        use Op::*;
        let ty = self.ty;
        let is_str = ty.is_str();
        if !ty.supports(op) {
            // never generated for this type: the generators are wrong if one arrives here
            self.v(format!("harness bug: {:?} has no counterpart for ty={}", op, ty.name()));
            return Out::Skip;
        }
        // ops on a dead handle are skipped on both sides
        let target = match op {
            Clone(h) | Slice(h, ..) | TrySlice(h, ..) | SliceRef(h, ..) | SliceRefU(h, ..) | SliceRefForeign(h, ..) | Push(h, ..) | PushSlice(h, ..) | Pop(h) | Truncate(h, ..) | Clear(h)
            | ShrinkTo(h, ..) | ShrinkToFit(h) | AsMutWrite(h, ..) | ToMutWrite(h, ..) | MakeAscii(h, ..) | ToAscii(h, ..) | Repeat(h, ..) | Mutate(h, ..) | IntoOwned(h)
            | IntoVec(h) | VecFrom(h) | IntoBorrowed(h) | AsBorrowed(h) | Drop(h) | ForceCount(h, ..) | RestoreCount(h) => Some(*h),
            _ => None,
        };
        if let Some(h) = target { if !self.live(h) { return Out::Skip; } }
        match op {
            New => { let h = alloc::window(|| match ty { Ty::Byt => H::Byt(HipByt::new()), Ty::Str => H::Str(HipStr::new()), Ty::Os => H::Os(HipOsStr::new()), Ty::Path => H::Path(HipPath::new()) }); self.add(h, vec![]) }
            Inline(x) => {
                if is_str { return Out::Skip; }
                match quiet_catch(AssertUnwindSafe(|| alloc::window(|| HipByt::<B>::inline(x)))) {
                    Ok(b) => { if x.len() > 23 { self.v(format!("inline({} bytes) did not panic", x.len())); } self.add(H::Byt(b), x.clone()) }
                    Err(_) => { alloc::set_window(false); if x.len() <= 23 { self.v(format!("inline({} bytes) panicked", x.len())); } Out::Panic }
                }
            }
            TryInline(x) => {
                if is_str { return Out::Skip; }
                match alloc::window(|| HipByt::<B>::try_inline(x)) {
                    Some(b) => { if x.len() > 23 { self.v("try_inline accepted > 23 bytes".into()); } self.add(H::Byt(b), x.clone()) }
                    None => { if x.len() <= 23 { self.v("try_inline rejected <= 23 bytes".into()); } Out::None_ }
                }
            }
            WithCapacity(n) => {
                let h = alloc::window(|| match ty { Ty::Byt => H::Byt(HipByt::with_capacity(*n)), Ty::Str => H::Str(HipStr::with_capacity(*n)), Ty::Os => H::Os(HipOsStr::with_capacity(*n)), Ty::Path => unreachable!() });
                self.add(h, vec![])
            }
            Borrowed(x) => {
                let s = self.add_src(x);
                let h = alloc::window(|| match ty { Ty::Byt => H::Byt(HipByt::borrowed(s)), Ty::Str => H::Str(HipStr::borrowed(st(s))), Ty::Os => H::Os(HipOsStr::borrowed(os(s))), Ty::Path => H::Path(HipPath::borrowed(pa(s))) });
                self.add(h, x.clone())
            }
            FromSlice(x) => {
                let h = alloc::window(|| match ty { Ty::Byt => H::Byt(HipByt::from(&x[..])), Ty::Str => H::Str(HipStr::from(st(x))), Ty::Os => H::Os(HipOsStr::from(os(x))), Ty::Path => H::Path(HipPath::from(pa(x))) });
                self.add(h, x.clone())
            }
            FromVec(x, extra) => {
                let h = alloc::window(|| {
                    let mut v = Vec::with_capacity(x.len() + extra);
                    v.extend_from_slice(x);
                    match ty {
                        Ty::Byt => H::Byt(HipByt::from(v)), Ty::Str => H::Str(HipStr::from(String::from_utf8(v).unwrap())),
                        Ty::Os => H::Os(HipOsStr::from(OsString::from_vec(v))), Ty::Path => H::Path(HipPath::from(PathBuf::from(OsString::from_vec(v)))),
                    }
                });
                self.add(h, x.clone())
            }
            FromUtf8(x) => {
                if !is_str { return Out::Skip; }
                let r = alloc::window(|| HipStr::<B>::from_utf8(HipByt::from(&x[..])).map_err(|_| ()));
                let ok = std::str::from_utf8(x).is_ok();
                match r {
                    Ok(s) => { if !ok { self.v(format!("from_utf8 accepted ill-formed {}", hex(x))); } self.add(H::Str(s), x.clone()) }
                    Err(()) => { if ok { self.v(format!("from_utf8 rejected well-formed {}", hex(x))); } Out::Err("SStartOutOfBounds", 0, 0) }
                }
            }
            Clone(h) => {
                let c = alloc::window(|| match self.hs[*h].as_ref().unwrap() { H::Byt(b) => H::Byt(b.clone()), H::Str(s) => H::Str(s.clone()), H::Os(s) => H::Os(s.clone()), H::Path(s) => H::Path(s.clone()) });
                let sh = self.shadow[*h].clone().unwrap();
                self.add(c, sh)
            }
            Slice(h, s, e) | TrySlice(h, s, e) => {
                let try_ = matches!(op, TrySlice(..));
                let sh = self.shadow[*h].clone().unwrap();
                let oracle: Option<Vec<u8>> = if is_str { st(&sh).get((*s, *e)).map(|x| x.as_bytes().to_vec()) } else { sh.get((*s, *e)).map(|x| x.to_vec()) };
                let src = self.hs[*h].as_ref().unwrap();
                let r = quiet_catch(AssertUnwindSafe(|| alloc::window(|| match src {
                    H::Byt(b) => if try_ { b.try_slice((*s, *e)).map(H::Byt).map_err(|er| (kbyt(er.kind()), er.start(), er.end())) } else { Ok(H::Byt(b.slice((*s, *e)))) },
                    H::Str(b) => if try_ { b.try_slice((*s, *e)).map(H::Str).map_err(|er| (kstr(er.kind()), er.start(), er.end())) } else { Ok(H::Str(b.slice((*s, *e)))) },
                    H::Os(_) | H::Path(_) => unreachable!(),
                })));
                match r {
                    Ok(Ok(n)) => { match oracle { Some(o) => self.add(n, o), None => { self.v(format!("{:?} accepted where std rejects", op)); let c = n.raw().as_slice().to_vec(); self.add(n, c) } } }
                    Ok(Err((k, a, b))) => { if oracle.is_some() { self.v(format!("{:?} rejected where std accepts", op)); } Out::Err(k, a, b) }
                    Err(m) => { alloc::set_window(false); if try_ || oracle.is_some() { self.v(format!("{:?} panicked: {}", op, m)); } Out::Panic }
                }
            }
            SliceRef(h, off, n) | SliceRefU(h, off, n) => {
                let unchecked = matches!(op, SliceRefU(..));
                let src = self.hs[*h].as_ref().unwrap();
                let whole = src.raw().as_slice();
                if off + n > whole.len() { return Out::Skip; }
                let sub: &[u8] = &whole[*off..*off + *n];
                let sub: &'static [u8] = unsafe { std::mem::transmute(sub) };   // only used during the call below
                let r = quiet_catch(AssertUnwindSafe(|| alloc::window(|| match src {
                    // the unchecked form is the adoption path of the str API (trim, split, ...): its precondition holds here
                    H::Byt(b) => H::Byt(if unchecked { unsafe { b.slice_ref_unchecked(sub) } } else { b.slice_ref(sub) }),
                    H::Str(b) => H::Str(if unchecked { unsafe { b.slice_ref_unchecked(st(sub)) } } else { b.slice_ref(st(sub)) }),
                    H::Os(b) => H::Os(if unchecked { unsafe { b.slice_ref_unchecked(os(sub)) } } else { b.slice_ref(os(sub)) }),
                    H::Path(_) => unreachable!() })));
                match r {
                    Ok(nh) => { let sh = self.shadow[*h].as_ref().unwrap()[*off..*off + *n].to_vec(); self.add(nh, sh) }
                    Err(m) => { alloc::set_window(false); self.v(format!("{:?} panicked on an in-range sub-slice: {}", op, m)); Out::Panic }
                }
            }
            SliceRefForeign(h, try_) => {
                let foreign: &'static [u8] = b"foreign-bytes";
                let src = self.hs[*h].as_ref().unwrap();
                if *try_ {
                    let r = alloc::window(|| match src { H::Byt(b) => b.try_slice_ref(foreign).is_some(), H::Str(b) => b.try_slice_ref(st(foreign)).is_some(), H::Os(b) => b.try_slice_ref(os(foreign)).is_some(), H::Path(_) => unreachable!() });
                    if r { self.v("try_slice_ref accepted a foreign slice".into()); }
                    Out::None_
                } else {
                    let r = quiet_catch(AssertUnwindSafe(|| alloc::window(|| match src { H::Byt(b) => { let _ = b.slice_ref(foreign); } H::Str(b) => { let _ = b.slice_ref(st(foreign)); } H::Os(b) => { let _ = b.slice_ref(os(foreign)); } H::Path(_) => unreachable!() })));
                    alloc::set_window(false);
                    if r.is_ok() { self.v("slice_ref accepted a foreign slice".into()); }
                    Out::Panic
                }
            }
            Push(h, c) => {
                let hd = self.hs[*h].as_mut().unwrap();
                alloc::window(|| match hd { H::Byt(b) => b.push(*c as u8), H::Str(s) => s.push(char::from_u32(*c).unwrap()), H::Os(_) | H::Path(_) => unreachable!() });
                let sh = self.shadow[*h].as_mut().unwrap();
                if is_str { let mut s = String::from_utf8(std::mem::take(sh)).unwrap(); s.push(char::from_u32(*c).unwrap()); *sh = s.into_bytes(); } else { sh.push(*c as u8); }
                Out::Unit
            }
            PushSlice(h, x) => {
                let hd = self.hs[*h].as_mut().unwrap();
                alloc::window(|| match hd { H::Byt(b) => b.push_slice(x), H::Str(s) => s.push_str(st(x)), H::Os(s) => s.push(os(x)), H::Path(_) => unreachable!() });
                self.shadow[*h].as_mut().unwrap().extend_from_slice(x);
                Out::Unit
            }
            Pop(h) => {
                let hd = self.hs[*h].as_mut().unwrap();
                let r = alloc::window(|| match hd { H::Byt(b) => b.pop().map(|x| x as u32), H::Str(s) => s.pop().map(|c| c as u32), H::Os(_) | H::Path(_) => unreachable!() });
                let r: Option<Vec<u8>> = r.map(|c| if is_str { char::from_u32(c).unwrap().to_string().into_bytes() } else { vec![c as u8] });
                let sh = self.shadow[*h].as_mut().unwrap();
                let o = if is_str { let mut s = String::from_utf8(std::mem::take(sh)).unwrap(); let p = s.pop().map(|c| c.to_string().into_bytes()); *sh = s.into_bytes(); p } else { sh.pop().map(|x| vec![x]) };
                if r != o { self.v(format!("pop returned {:?}, std {:?}", r, o)); }
                match r { Some(v) => Out::Some_(v), None => Out::None_ }
            }
            Truncate(h, m) => {
                let std_panics = { let sh = self.shadow[*h].as_ref().unwrap(); is_str && *m <= sh.len() && !st(sh).is_char_boundary(*m) };
                let hd = self.hs[*h].as_mut().unwrap();
                let r = quiet_catch(AssertUnwindSafe(|| alloc::window(|| match hd { H::Byt(b) => b.truncate(*m), H::Str(s) => s.truncate(*m), H::Os(_) | H::Path(_) => unreachable!() })));
                match r {
                    Ok(()) => { if std_panics { self.v(format!("truncate({}) inside a code point did not panic", m)); } let sh = self.shadow[*h].as_mut().unwrap(); if *m < sh.len() { sh.truncate(*m); } Out::Unit }
                    Err(msg) => { alloc::set_window(false); if !std_panics { self.v(format!("truncate({}) panicked: {}", m, msg)); } Out::Panic }
                }
            }
            Clear(h) => {
                let hd = self.hs[*h].as_mut().unwrap();
                let r = quiet_catch(AssertUnwindSafe(|| alloc::window(|| match hd { H::Byt(b) => b.clear(), H::Str(s) => s.clear(), H::Os(_) | H::Path(_) => unreachable!() })));
                self.shadow[*h].as_mut().unwrap().clear();
                if let Err(m) = r { alloc::set_window(false); self.v(format!("clear panicked: {}", m)); return Out::Panic; }
                Out::Unit
            }
            ShrinkTo(h, m) => {
                let hd = self.hs[*h].as_mut().unwrap();
                alloc::window(|| match hd { H::Byt(b) => b.shrink_to(*m), H::Str(s) => s.shrink_to(*m), H::Os(s) => s.shrink_to(*m), H::Path(s) => s.shrink_to(*m) });
                Out::Unit
            }
            ShrinkToFit(h) => {
                let hd = self.hs[*h].as_mut().unwrap();
                alloc::window(|| match hd { H::Byt(b) => b.shrink_to_fit(), H::Str(s) => s.shrink_to_fit(), H::Os(s) => s.shrink_to_fit(), H::Path(s) => s.shrink_to_fit() });
                Out::Unit
            }
            AsMutWrite(h, i, b) => {
                if is_str { return Out::Skip; }
                let hd = self.hs[*h].as_mut().unwrap();
                let H::Byt(hb) = hd else { unreachable!() };
                let granted = alloc::window(|| match hb.as_mut_slice() { Some(sl) => { if *i < sl.len() { sl[*i] = *b; } true } None => false });
                // as_mut_ptr must agree
                let g2 = hb.as_mut_ptr().is_some();
                if g2 != granted { self.v("as_mut_ptr and as_mut_slice disagree".into()); }
                if granted { let sh = self.shadow[*h].as_mut().unwrap(); if *i < sh.len() { sh[*i] = *b; } Out::Some_(vec![]) } else { Out::None_ }
            }
            ToMutWrite(h, i, b) => {
                if is_str { return Out::Skip; }
                let hd = self.hs[*h].as_mut().unwrap();
                let H::Byt(hb) = hd else { unreachable!() };
                alloc::window(|| { let sl = hb.to_mut_slice(); if *i < sl.len() { sl[*i] = *b; } });
                let sh = self.shadow[*h].as_mut().unwrap(); if *i < sh.len() { sh[*i] = *b; }
                Out::Unit
            }
            MakeAscii(h, up) => {
                let hd = self.hs[*h].as_mut().unwrap();
                alloc::window(|| match hd { H::Byt(b) => if *up { b.make_ascii_uppercase() } else { b.make_ascii_lowercase() }, H::Str(s) => if *up { s.make_ascii_uppercase() } else { s.make_ascii_lowercase() }, H::Os(_) | H::Path(_) => unreachable!() });
                let sh = self.shadow[*h].as_mut().unwrap(); if *up { sh.make_ascii_uppercase() } else { sh.make_ascii_lowercase() }
                Out::Unit
            }
            ToAscii(h, up) => {
                let hd = self.hs[*h].as_ref().unwrap();
                let n = alloc::window(|| match hd { H::Byt(b) => H::Byt(if *up { b.to_ascii_uppercase() } else { b.to_ascii_lowercase() }), H::Str(s) => H::Str(if *up { s.to_ascii_uppercase() } else { s.to_ascii_lowercase() }), H::Os(_) | H::Path(_) => unreachable!() });
                let sh = self.shadow[*h].as_ref().unwrap(); let o = if *up { sh.to_ascii_uppercase() } else { sh.to_ascii_lowercase() };
                self.add(n, o)
            }
            Repeat(h, k) => {
                let sh = self.shadow[*h].clone().unwrap();
                let overflow = sh.len().checked_mul(*k).map_or(true, |n| n > isize::MAX as usize) && !(sh.is_empty() || *k == 1);
                let hd = self.hs[*h].as_ref().unwrap();
                let r = quiet_catch(AssertUnwindSafe(|| alloc::window(|| match hd { H::Byt(b) => H::Byt(b.repeat(*k)), H::Str(s) => H::Str(s.repeat(*k)), H::Os(_) | H::Path(_) => unreachable!() })));
                match r {
                    Ok(n) => { if overflow { self.v("repeat did not panic on overflow".into()); } let o = sh.repeat(*k); self.add(n, o) }
                    Err(m) => { alloc::set_window(false); if !overflow { self.v(format!("repeat({}) panicked: {}", k, m)); } Out::Panic }
                }
            }
            Mutate(h, script, leak) => {
                let hd = self.hs[*h].as_mut().unwrap();
                alloc::window(|| match hd {
                    H::Byt(b) => {
                        let mut g = b.mutate();
                        for o in script { match o { VOp::Push(x) => g.push(*x), VOp::Extend(x) => g.extend_from_slice(x), VOp::Truncate(n) => g.truncate(*n), VOp::Clear => g.clear(), VOp::Reserve(n) => g.reserve(*n), VOp::ShrinkFit => g.shrink_to_fit() } }
                        if *leak { std::mem::forget(g); }
                    }
                    H::Str(s) => {
                        let mut g = s.mutate();
                        for o in script { match o { VOp::Push(x) => g.push(*x as char), VOp::Extend(x) => g.push_str(st(x)), VOp::Truncate(n) => g.truncate(*n), VOp::Clear => g.clear(), VOp::Reserve(n) => g.reserve(*n), VOp::ShrinkFit => g.shrink_to_fit() } }
                        if *leak { std::mem::forget(g); }
                    }
                    // the guards deref to OsString / PathBuf: appends go through OsString::push (PathBuf::push would insert separators)
                    H::Os(s) => {
                        let mut g = s.mutate();
                        for o in script { match o { VOp::Push(x) => g.push(os(std::slice::from_ref(x))), VOp::Extend(x) => g.push(os(x)), VOp::Truncate(_) => unreachable!(), VOp::Clear => g.clear(), VOp::Reserve(n) => g.reserve(*n), VOp::ShrinkFit => g.shrink_to_fit() } }
                        if *leak { std::mem::forget(g); }
                    }
                    H::Path(s) => {
                        let mut g = s.mutate();
                        for o in script { match o { VOp::Push(x) => g.as_mut_os_string().push(os(std::slice::from_ref(x))), VOp::Extend(x) => g.as_mut_os_string().push(os(x)), VOp::Truncate(_) => unreachable!(), VOp::Clear => g.clear(), VOp::Reserve(n) => g.reserve(*n), VOp::ShrinkFit => g.shrink_to_fit() } }
                        if *leak { std::mem::forget(g); }
                    }
                });
                let sh = self.shadow[*h].as_mut().unwrap();
                if *leak { sh.clear(); } else {
                    for o in script { match o { VOp::Push(x) => sh.push(*x), VOp::Extend(x) => sh.extend_from_slice(x), VOp::Truncate(n) => sh.truncate(*n), VOp::Clear => sh.clear(), _ => {} } }
                }
                Out::Unit
            }
            IntoOwned(h) => {
                let hd = self.hs[*h].take().unwrap();
                let n = alloc::window(|| match hd { H::Byt(b) => H::Byt(b.into_owned()), H::Str(s) => H::Str(s.into_owned()), H::Os(s) => H::Os(s.into_owned()), H::Path(s) => H::Path(s.into_owned()) });
                self.hs[*h] = Some(n);
                Out::Unit
            }
            IntoVec(h) => {
                let hd = self.hs[*h].take().unwrap();
                let r = alloc::window(|| match hd {
                    H::Byt(b) => b.into_vec().map(|v| { let r = (v.clone_outside(), v.capacity()); drop(v); r }).map_err(H::Byt),
                    H::Str(s) => s.into_string().map(|v| { let v = v.into_bytes(); let r = (v.clone_outside(), v.capacity()); drop(v); r }).map_err(H::Str),
                    H::Os(s) => s.into_os_string().map(|v| { let v = v.into_vec(); let r = (v.clone_outside(), v.capacity()); drop(v); r }).map_err(H::Os),
                    H::Path(s) => s.into_path_buf().map(|v| { let v = v.into_os_string().into_vec(); let r = (v.clone_outside(), v.capacity()); drop(v); r }).map_err(H::Path),
                });
                match r {
                    Ok((v, cap)) => { if Some(&v) != self.shadow[*h].as_ref() { self.v(format!("into_vec returned {} expected {:?}", hex(&v), self.shadow[*h].as_ref().map(|x| hex(x)))); } self.shadow[*h] = None; Out::Vec_(v, cap) }
                    Err(hd) => { self.hs[*h] = Some(hd); Out::None_ }
                }
            }
            VecFrom(h) => {
                let hd = self.hs[*h].take().unwrap();
                let (v, cap) = alloc::window(|| match hd {
                    H::Byt(b) => { let v: Vec<u8> = b.into(); let r = (v.clone_outside(), v.capacity()); drop(v); r }
                    H::Str(s) => { let v: String = s.into(); let v = v.into_bytes(); let r = (v.clone_outside(), v.capacity()); drop(v); r }
                    H::Os(s) => { let v: OsString = s.into(); let v = v.into_vec(); let r = (v.clone_outside(), v.capacity()); drop(v); r }
                    H::Path(s) => { let v: PathBuf = s.into(); let v = v.into_os_string().into_vec(); let r = (v.clone_outside(), v.capacity()); drop(v); r }
                });
                if Some(&v) != self.shadow[*h].as_ref() { self.v(format!("Vec::from returned {} expected {:?}", hex(&v), self.shadow[*h].as_ref().map(|x| hex(x)))); }
                self.shadow[*h] = None;
                Out::Vec_(v, cap)
            }
            IntoBorrowed(h) => {
                let hd = self.hs[*h].take().unwrap();
                let r = alloc::window(|| match hd { H::Byt(b) => b.into_borrowed().map(|x| x.to_vec_outside()).map_err(H::Byt), H::Str(s) => s.into_borrowed().map(|x| x.as_bytes().to_vec_outside()).map_err(H::Str),
                    H::Os(s) => s.into_borrowed().map(|x| x.as_bytes().to_vec_outside()).map_err(H::Os), H::Path(s) => s.into_borrowed().map(|x| x.as_os_str().as_bytes().to_vec_outside()).map_err(H::Path) });
                match r {
                    Ok(v) => { if Some(&v) != self.shadow[*h].as_ref() { self.v("into_borrowed content differs".into()); } self.shadow[*h] = None; Out::Some_(v) }
                    Err(hd) => { self.hs[*h] = Some(hd); Out::None_ }
                }
            }
            AsBorrowed(h) => {
                let hd = self.hs[*h].as_ref().unwrap();
                let r = alloc::window(|| match hd { H::Byt(b) => b.as_borrowed().map(|x| x.to_vec_outside()), H::Str(s) => s.as_borrowed().map(|x| x.as_bytes().to_vec_outside()),
                    H::Os(s) => s.as_borrowed().map(|x| x.as_bytes().to_vec_outside()), H::Path(s) => s.as_borrowed().map(|x| x.as_os_str().as_bytes().to_vec_outside()) });
                match r { Some(v) => { if Some(&v) != self.shadow[*h].as_ref() { self.v("as_borrowed content differs".into()); } Out::Some_(v) } None => Out::None_ }
            }
            Drop(h) => { let hd = self.hs[*h].take(); alloc::window(|| drop(hd)); self.shadow[*h] = None; Out::Unit }
            ForceCount(h, k) => {
                if self.unique_backend { return if self.hs[*h].as_ref().unwrap().raw().is_allocated() { Out::Skip } else { Out::Skip }; }
                let raw = self.hs[*h].as_ref().unwrap().raw();
                if raw.verif_force_count(usize::MAX - 1 - k) { Out::Unit } else { Out::Skip }
            }
            RestoreCount(h) => {
                if self.unique_backend { return Out::Skip; }
                let raw = self.hs[*h].as_ref().unwrap().raw();
                let Some(me) = raw.verif_repr() else { return Out::Skip };
                let n = self.hs.iter().flatten().filter(|x| x.raw().verif_repr().map_or(false, |r| r[0] == me[0])).count();
                raw.verif_force_count(n - 1);
                Out::Unit
            }
        }
    }

    /// Hook-level observation of every live handle + oracle checks (C01 content, C02 sources, C03 memory).
    pub fn observe(&mut self) -> String {
        let mut out = String::from("[");
        let mut first = true;
        let mut viols: Vec<String> = vec![];
        for (i, h) in self.hs.iter().enumerate() {
            let Some(h) = h else { continue };
            let raw = h.raw();
            let bytes = raw.as_slice();
            // C01: content equals the std model
            if Some(bytes) != self.shadow[i].as_deref() {
                viols.push(format!("h{} reads {} but the std model holds {}", i, hex(bytes), self.shadow[i].as_ref().map_or("?".into(), |x| hex(x))));
            }
            if let H::Str(s) = h {
                if std::str::from_utf8(s.as_bytes()).is_err() { viols.push(format!("h{} (HipStr) holds ill-formed UTF-8 {}", i, hex(bytes))); }
                if s.len() != bytes.len() || s.as_str().as_bytes() != bytes { viols.push(format!("h{} as_str/len disagree", i)); }
            }
            // formatted text and the std-typed views of every live handle against std on the shadow value (never inside an accounting window)
            if let Some(sh) = self.shadow[i].as_ref() {
                alloc::pause(|| {
                    let mut text = |what: &str, got: String, exp: String| { if got != exp { viols.push(format!("h{} {} text differs: got {} expected {}", i, what, got, exp)); } };
                    match h {
                        // formatting flags (width, fill, alignment, precision, alternate, hex) must reach the std implementation
                        H::Byt(b) => { text("Debug", format!("{:?}", b), format!("{:?}", &sh[..])); text("Debug {:x?}", format!("{:x?}", b), format!("{:x?}", &sh[..])); if sh.len() <= 4 { text("Debug {:#?}", format!("{:#?}", b), format!("{:#?}", &sh[..])); } }
                        H::Str(s) => if let Ok(e) = std::str::from_utf8(sh) {
                            text("Debug", format!("{:?}", s), format!("{:?}", e)); text("Display", format!("{}", s), format!("{}", e));
                            text("Display {:>70}", format!("{:>70}", s), format!("{:>70}", e)); text("Display {:*^9}", format!("{:*^9}", s), format!("{:*^9}", e));
                            text("Display {:.3}", format!("{:.3}", s), format!("{:.3}", e)); text("Display {:<8.2}", format!("{:<8.2}", s), format!("{:<8.2}", e));
                            text("Debug {:12?}", format!("{:12?}", s), format!("{:12?}", e)); text("to_string", s.to_string(), e.to_string());
                        },
                        H::Os(s) => {
                            text("Debug", format!("{:?}", s), format!("{:?}", os(sh)));
                            if s.as_os_str().as_bytes() != &sh[..] || s.len() != sh.len() || s.is_empty() != sh.is_empty() { viols.push(format!("h{} as_os_str/len disagree with the std model {}", i, hex(sh))); }
                        }
                        H::Path(s) => {
                            text("Debug", format!("{:?}", s), format!("{:?}", pa(sh)));
                            text("Display", s.display().to_string(), pa(sh).display().to_string());
                            text("Display {:>70}", format!("{:>70}", s.display()), format!("{:>70}", pa(sh).display()));
                            if s.as_path() != pa(sh) || s.as_path().as_os_str().as_bytes() != &sh[..] || s.as_os_str().as_bytes() != &sh[..] { viols.push(format!("h{} as_path/as_os_str disagree with the std model {}", i, hex(sh))); }
                        }
                    }
                });
            }
            if raw.capacity() < raw.len() { viols.push(format!("h{} capacity {} < len {}", i, raw.capacity(), raw.len())); }
            // the pivot's tag byte (hook): never 0 (the niche), its two low bits name the representation, and for the inline
            // representation it is exactly (len << 2) | 1 -- the arithmetic proved over gen/TagGen.v
            { let tb = raw.verif_tag_byte(); let want = if raw.is_inline() { 1 } else if raw.is_borrowed() { 2 } else { 3 };
              if tb == 0 || tb & 3 != want || (raw.is_inline() && tb as usize != (bytes.len() << 2 | 1)) { viols.push(format!("h{} tag byte {:#04x} is not the byte of a {} value of {} bytes", i, tb, ["?", "inline", "borrowed", "heap"][want as usize], bytes.len())); } }
            let ptr = raw.as_ptr() as usize;
            let (tag, where_, off, count, vlen, cap) = if raw.is_inline() {
                let base = raw as *const _ as usize;
                if !(ptr >= base && ptr + bytes.len() <= base + 24) { viols.push(format!("h{} inline view outside the value", i)); }
                (1, 0, 0, 0, 0, 23)
            } else if raw.is_borrowed() {
                let mut sid = usize::MAX; let mut off = 0;
                for (k, s) in self.srcs.iter().enumerate() {
                    let b = s.as_ptr() as usize;
                    if ptr >= b && ptr + bytes.len() <= b + s.len() - 1 { sid = k; off = ptr - b; break; }
                }
                if sid == usize::MAX { viols.push(format!("h{} borrowed view outside every source", i)); sid = 0; }
                (2, sid, off, 0, 0, bytes.len())
            } else {
                let r = raw.verif_repr().unwrap();
                let (owner, vptr, vlen, vcap, view_ptr, view_len, cnt) = (r[0], r[1], r[2], r[3], r[4], r[5], r[6]);
                // C03: the view lies inside the owner's initialised buffer, which is a live block of the allocator of the right size
                if !(view_ptr >= vptr && view_ptr + view_len <= vptr + vlen && vlen <= vcap) { viols.push(format!("h{} view [{}+{}] outside owner buffer [{}+{} cap {}]", i, view_ptr, view_len, vptr, vlen, vcap)); }
                if vcap != 0 && alloc::block_at(vptr) != Some(vcap) { viols.push(format!("h{} owner buffer is not a live allocator block of its capacity ({:?} vs {})", i, alloc::block_at(vptr), vcap)); }
                if alloc::block_at(owner).is_none() { viols.push(format!("h{} owner box is not a live allocator block", i)); }
                let first = self.hs.iter().position(|x| x.as_ref().map_or(false, |x| x.raw().verif_repr().map_or(false, |q| q[0] == owner))).unwrap();
                (3, first, view_ptr - vptr, cnt, vlen, vcap)
            };
            if !first { out.push_str("; "); }
            first = false;
            let _ = write!(out, "HObs {} {} {} {} {} {} {} {} {} {}", i, tag, bytes.len(), digest(bytes), where_, off, count, vlen, cap, raw.is_normalized());
        }
        // C02: a borrowed source is never written
        for (k, s) in self.srcs.iter().enumerate() { if **s != self.src_copy[k][..] { viols.push(format!("borrow source {} was modified", k)); } }
        for v in viols { self.v(v); }
        out.push(']');
        out
    }
}

trait Outside { fn clone_outside(&self) -> Vec<u8>; }
impl Outside for Vec<u8> {
    /// copy made outside the accounting window (so that the harness's own copy is not counted)
    fn clone_outside(&self) -> Vec<u8> { alloc::set_window(false); let v = self.clone(); alloc::set_window(true); v }
}
trait ToVecOutside { fn to_vec_outside(&self) -> Vec<u8>; }
impl ToVecOutside for [u8] {
    fn to_vec_outside(&self) -> Vec<u8> { alloc::set_window(false); let v = self.to_vec(); alloc::set_window(true); v }
}

// ------------------------------------------------------------------------------------------------ generators
// the last five have continuation bytes at the edges of the continuation range (0x80 / 0xBF)
const STR_ATOMS: [&str; 11] = ["a", "B", "\u{e9}", "\u{20ac}", "\u{1F980}", "z", "\u{c0}", "\u{2013}", "\u{10000}", "\u{7ff}", "\u{ffff}"];
fn gen_bytes(rng: &mut Rng, ty: Ty, len: usize) -> Vec<u8> {
    if ty == Ty::Path {
        // arbitrary bytes with many separators and dots ("." / ".." components, "//", trailing '/')
        let base = rng.below(200) as u8;
        return (0..len).map(|i| match rng.below(8) { 0 | 1 => b'/', 2 | 3 => b'.', _ => base.wrapping_add(i as u8) }).collect();
    }
    if ty.is_str() {
        let mut s = String::new();
        while s.len() < len {
            let a = *rng.pick(&STR_ATOMS);
            if s.len() + a.len() <= len { s.push_str(a); } else { s.push('q'); }
        }
        s.into_bytes()
    } else {
        let base = rng.below(200) as u8;
        (0..len).map(|i| base.wrapping_add(i as u8)).collect()
    }
}
const LENS: [usize; 12] = [0, 1, 2, 5, 11, 22, 23, 24, 25, 30, 47, 64];
fn gen_len(rng: &mut Rng) -> usize { *rng.pick(&LENS) }

fn gen_bound(rng: &mut Rng, len: usize, at: &dyn Fn(usize) -> usize) -> Bound<usize> {
    let v = match rng.below(12) { 0 => 0, 1 => len, 2 => len + 1, 3 => usize::MAX, 4 => len.saturating_sub(1), _ => at(rng.below(len + 1)) };
    match rng.below(5) { 0 => Bound::Unbounded, 1 => Bound::Included(v), _ => Bound::Excluded(v) }
}

/// Draws an op the type of the pool supports: unsupported draws are re-drawn (HipPath has no direct append: a `PushSlice` draw
/// becomes a one-step `mutate` script, so that appends stay covered).
fn gen_op<B: Backend>(rng: &mut Rng, p: &Pool<B>, force_ok: bool) -> Op {
    loop {
        let op = match gen_op_raw(rng, p, force_ok) {
            Op::PushSlice(h, x) if p.ty == Ty::Path => Op::Mutate(h, vec![VOp::Extend(x)], false),
            op => op,
        };
        if p.ty.supports(&op) { return op; }
    }
}
fn gen_op_raw<B: Backend>(rng: &mut Rng, p: &Pool<B>, force_ok: bool) -> Op {
    let ty = p.ty;
    let is_str = ty.is_str();
    let live: Vec<usize> = (0..p.hs.len()).filter(|&i| p.hs[i].is_some()).collect();
    if live.is_empty() || (live.len() < 5 && rng.chance(1, 5)) {
        let n = gen_len(rng);
        return match rng.below(9) {
            0 => Op::New,
            1 => Op::WithCapacity(*rng.pick(&[0, 10, 23, 24, 30, 40, 100])),
            2 => Op::Borrowed(gen_bytes(rng, ty, n)),
            3 | 4 => Op::FromSlice(gen_bytes(rng, ty, n)),
            5 | 6 => Op::FromVec(gen_bytes(rng, ty, n), *rng.pick(&[0, 0, 1, 7, 30])),
            _ if ty.is_wrapper() => if rng.chance(1, 2) { Op::Borrowed(gen_bytes(rng, ty, n)) } else { Op::FromSlice(gen_bytes(rng, ty, n)) },
            7 => if is_str { Op::FromUtf8(if rng.chance(1, 2) { gen_bytes(rng, ty, n) } else { let mut b = gen_bytes(rng, ty, n.max(2)); let i = rng.below(b.len()); b[i] = *rng.pick(&[0x80, 0xC0, 0xED, 0xF5, 0xFF]); b }) } else { { let n = *rng.pick(&[0, 5, 23, 24]); Op::Inline(gen_bytes(rng, ty, n)) } },
            _ => if is_str { Op::FromSlice(gen_bytes(rng, ty, n)) } else { { let n = *rng.pick(&[0, 5, 23, 24]); Op::TryInline(gen_bytes(rng, ty, n)) } },
        };
    }
    let h = *rng.pick(&live);
    let sh = p.shadow[h].as_ref().unwrap();
    let len = sh.len();
    let boundary = |i: usize| -> usize { if is_str { let s = st(sh); let mut j = i.min(len); while !s.is_char_boundary(j) { j -= 1; } j } else { i.min(len) } };
    match rng.below(40) {
        0..=4 => Op::Clone(h),
        5..=8 => { let keep = rng.chance(3, 4); let at = |i: usize| if keep { boundary(i) } else { i }; let s = gen_bound(rng, len, &at); let e = gen_bound(rng, len, &at); if rng.chance(1, 2) { Op::TrySlice(h, s, e) } else { Op::Slice(h, s, e) } }
        9..=11 => { let a = boundary(rng.below(len + 1)); let b = if rng.chance(1, 3) { len } else { boundary(a + rng.below(len - a + 1)) }; let a = if rng.chance(1, 6) { 0 } else { a }; let (a, b) = (a.min(b), a.max(b)); if rng.chance(1, 2) { Op::SliceRefU(h, a, b - a) } else { Op::SliceRef(h, a, b - a) } }
        12 => Op::SliceRefForeign(h, rng.chance(1, 2)),
        13..=15 => if is_str { Op::Push(h, *rng.pick(&[0x61, 0xe9, 0x20ac, 0x1F980])) } else { Op::Push(h, rng.below(256) as u32) },
        16..=18 => { let n = *rng.pick(&[0, 1, 3, 10, 22, 24, 40]); Op::PushSlice(h, gen_bytes(rng, ty, n)) }
        19..=20 => Op::Pop(h),
        21..=23 => { let m = match rng.below(6) { 0 => 0, 1 => len, 2 => len + 3, 3 => 23, 4 => 24, _ => rng.below(len + 1) }; Op::Truncate(h, if rng.chance(5, 6) { boundary(m.min(len)).max(if m > len { m } else { 0 }) } else { m }) }
        24 => Op::Clear(h),
        25 => Op::ShrinkTo(h, *rng.pick(&[0, 10, 23, 24, 30, 50, 1000])),
        26 => Op::ShrinkToFit(h),
        27 => if is_str { Op::MakeAscii(h, rng.chance(1, 2)) } else { Op::AsMutWrite(h, rng.below(len + 2), rng.below(256) as u8) },
        28 => if is_str { Op::ToAscii(h, rng.chance(1, 2)) } else { Op::ToMutWrite(h, rng.below(len + 2), rng.below(256) as u8) },
        29 => Op::MakeAscii(h, rng.chance(1, 2)),
        30 => Op::ToAscii(h, rng.chance(1, 2)),
        // small counts, and counts whose product with the length overflows usize (wrapping to a small number) or isize
        31 => Op::Repeat(h, if len >= 1 && rng.chance(1, 4) { match rng.below(3) { 0 => usize::MAX, 1 => if len >= 2 { usize::MAX / len + 1 } else { usize::MAX }, _ => if len >= 2 { (1usize << 63) / (len.next_power_of_two() / 2).max(1) } else { 1usize << 63 } } } else { *rng.pick(&[0, 1, 2, 3, 5, 6, 7, 10, 11, 13, 23]) }),
        32 => {
            let mut script = vec![];
            let mut cur = len;
            for _ in 0..rng.below(4) {
                script.push(match rng.below(6) {
                    0 => { cur += 1; VOp::Push(if is_str { b'x' } else { rng.below(256) as u8 }) }
                    1 => { let n = *rng.pick(&[1, 5, 24]); cur += n; VOp::Extend(gen_bytes(rng, ty, n)) }
                    2 if ty.is_wrapper() => VOp::Reserve(*rng.pick(&[3, 40])),      // no truncate on OsString / PathBuf
                    2 => { let m = boundary_of(sh, is_str, rng.below(cur.min(len) + 1)); if cur > len { VOp::Reserve(3) } else { cur = m; VOp::Truncate(m) } }
                    3 => { cur = 0; VOp::Clear }
                    4 => VOp::Reserve(*rng.pick(&[0, 1, 16, 100])),
                    _ => VOp::ShrinkFit,
                });
                if matches!(script.last(), Some(VOp::Truncate(_)) | Some(VOp::Clear)) { break; }
            }
            Op::Mutate(h, script, rng.chance(1, 10))
        }
        33 => Op::IntoOwned(h),
        34 => Op::IntoVec(h),
        35 => Op::VecFrom(h),
        36 => if rng.chance(1, 2) { Op::IntoBorrowed(h) } else { Op::AsBorrowed(h) },
        37 => if force_ok { Op::ForceCount(h, rng.below(3)) } else { Op::Clone(h) },
        _ => Op::Drop(h),
    }
}
fn boundary_of(sh: &[u8], is_str: bool, i: usize) -> usize {
    if is_str { let s = st(sh); let mut j = i.min(sh.len()); while !s.is_char_boundary(j) { j -= 1; } j } else { i.min(sh.len()) }
}

/// Fixed sequences: the refuted witnesses of DESIGN.md section 7 and minimised disagreements found while building.
pub fn corpus(ty: Ty) -> Vec<Vec<Op>> {
    if ty.is_wrapper() { return corpus_wrappers(ty); }
    let is_str = ty.is_str();
    let b = |n: usize| -> Vec<u8> { if is_str { (0..n).map(|i| b'a' + (i % 26) as u8).collect() } else { (0..n as u8).collect() } };
    use Bound::*;
    vec![
        vec![Op::WithCapacity(30), Op::Clear(0), Op::Truncate(0, 0), Op::Slice(0, Included(0), Excluded(0)), Op::Clone(0), Op::TrySlice(3, Unbounded, Unbounded)],
        vec![Op::WithCapacity(30), Op::PushSlice(0, b(10)), Op::Truncate(0, 20), Op::Truncate(0, 5), Op::Pop(0)],
        vec![Op::FromSlice(b(40)), Op::Slice(0, Included(2), Excluded(30)), Op::Drop(0), Op::Clone(1), Op::Drop(1)],
        vec![Op::FromSlice(b(40)), Op::ForceCount(0, 0), Op::Slice(0, Included(2), Excluded(30)), Op::Clone(0), Op::RestoreCount(0), Op::Drop(0), Op::PushSlice(1, b(3))],
        vec![Op::FromSlice(b(40)), Op::ForceCount(0, 1), Op::Clone(0), Op::Clone(0), Op::Slice(0, Included(1), Unbounded), Op::RestoreCount(0), Op::Drop(0)],
        vec![Op::FromSlice(b(40)), Op::TrySlice(0, Unbounded, Included(usize::MAX)), Op::TrySlice(0, Excluded(usize::MAX), Unbounded)],
        vec![Op::FromVec(b(30), 10), Op::Clone(0), Op::PushSlice(0, b(4)), Op::Drop(1), Op::PushSlice(0, b(4)), Op::PushSlice(0, b(40)), Op::IntoVec(0)],
        vec![Op::FromSlice(b(40)), Op::Slice(0, Included(5), Unbounded), Op::Drop(0), Op::IntoVec(1), Op::PushSlice(1, b(2)), Op::IntoVec(1)],
        vec![Op::FromSlice(b(40)), Op::Mutate(0, vec![VOp::Push(b'x'), VOp::Truncate(3)], false), Op::Mutate(0, vec![VOp::Extend(b(30))], true), Op::PushSlice(0, b(30))],
        vec![Op::Borrowed(b(40)), Op::Clone(0), Op::Slice(0, Included(3), Excluded(9)), Op::MakeAscii(0, true), Op::PushSlice(1, b(1)), Op::IntoOwned(2), Op::Truncate(1, 2)],
        vec![Op::FromSlice(b(30)), Op::Clone(0), Op::ShrinkTo(0, 0), Op::WithCapacity(100), Op::ShrinkTo(3, 50), Op::ShrinkTo(3, 10), Op::ShrinkToFit(0)],
        vec![Op::FromSlice(b(12)), Op::Repeat(0, 2), Op::Repeat(0, 1), Op::Repeat(0, 0), Op::Repeat(1, 3), Op::ToAscii(4, true)],
        // every count whose result still fits inline, from short sources (inline, and a borrowed 1..3-byte prefix of a longer text)
        vec![Op::FromSlice(b(1)), Op::Repeat(0, 6), Op::Repeat(0, 7), Op::Repeat(0, 10), Op::Repeat(0, 15), Op::Repeat(0, 23), Op::Repeat(0, 24), Op::FromSlice(b(2)), Op::Repeat(7, 6), Op::Repeat(7, 11), Op::FromSlice(b(3)), Op::Repeat(10, 7), Op::Repeat(10, 8)],
        vec![Op::Borrowed(b(40)), Op::Slice(0, Included(0), Excluded(1)), Op::Repeat(1, 6), Op::Repeat(1, 13), Op::Slice(0, Included(3), Excluded(5)), Op::Repeat(4, 7), Op::Repeat(4, 11), Op::Slice(0, Included(1), Excluded(4)), Op::Repeat(7, 6)],
        // the sole owner of a view that starts INSIDE its buffer (the source is gone): every operation that may reuse the buffer
        vec![Op::FromSlice(b(60)), Op::Slice(0, Included(10), Unbounded), Op::Drop(0), Op::Mutate(1, vec![VOp::Push(b'x')], false), Op::Pop(1)],
        vec![Op::FromVec(b(60), 40), Op::Slice(0, Included(10), Excluded(50)), Op::Drop(0), Op::ShrinkTo(1, 45), Op::PushSlice(1, b(3)), Op::ShrinkToFit(1), Op::IntoVec(1)],
        vec![Op::FromVec(b(60), 40), Op::Slice(0, Included(30), Unbounded), Op::Drop(0), Op::PushSlice(1, b(35)), Op::PushSlice(1, b(40)), Op::Truncate(1, 31), Op::VecFrom(1)],
        vec![Op::FromSlice(b(64)), Op::Slice(0, Included(40), Unbounded), Op::Drop(0), Op::Mutate(1, vec![VOp::Extend(b(5)), VOp::ShrinkFit], false), Op::Clone(1), Op::Mutate(1, vec![VOp::Clear], false)],
        // products that wrap around usize to a small number (must panic like std, in release too)
        vec![Op::FromSlice(b(2)), Op::Repeat(0, 1 << 63), Op::Borrowed(b(32)), Op::Repeat(1, 1 << 59), Op::Repeat(0, usize::MAX), Op::FromSlice(b(32)), Op::Repeat(2, 1 << 59), Op::Repeat(2, (1 << 59) + 1)],
        // a short heap value (with_capacity lineage) that is shared, then edited through the copying accessors
        vec![Op::WithCapacity(30), Op::PushSlice(0, b(10)), Op::Clone(0), Op::MakeAscii(0, true), Op::ToAscii(1, true), Op::Clone(1), Op::MakeAscii(1, false), Op::PushSlice(3, b(2))],
        // a Unique/ceiling clone of a shortened view copies the view, not the owner's vector
        vec![Op::FromSlice(b(48)), Op::Truncate(0, 24), Op::Clone(0), Op::ToAscii(0, true), Op::Pop(0), Op::Clone(0), Op::ForceCount(0, 0), Op::Clone(0), Op::RestoreCount(0)],
    ]
}

/// The fixed sequences restated with the ops HipOsStr has (sub-slices through `slice_ref`, edits through `push` and the `mutate`
/// guard); for HipPath the ops it lacks are replaced by the nearest op that keeps the handle numbering.
fn corpus_wrappers(ty: Ty) -> Vec<Vec<Op>> {
    let b = |n: usize| -> Vec<u8> {
        if ty == Ty::Path { (0..n).map(|i| match i % 7 { 0 => b'/', 3 => b'.', 4 if i % 2 == 0 => b'.', _ => 0x60 + i as u8 }).collect() } else { (0..n).map(|i| 0x70u8.wrapping_add(i as u8 * 3)).collect() }
    };
    let seqs = vec![
        vec![Op::WithCapacity(30), Op::PushSlice(0, b(10)), Op::Clone(0), Op::SliceRef(0, 2, 5), Op::ShrinkToFit(0), Op::IntoVec(0), Op::IntoVec(1)],
        vec![Op::FromSlice(b(40)), Op::SliceRef(0, 2, 28), Op::Drop(0), Op::Clone(1), Op::Drop(1)],
        vec![Op::FromSlice(b(40)), Op::ForceCount(0, 0), Op::SliceRefU(0, 2, 28), Op::Clone(0), Op::RestoreCount(0), Op::Drop(0), Op::PushSlice(1, b(3))],
        vec![Op::FromSlice(b(40)), Op::ForceCount(0, 1), Op::Clone(0), Op::Clone(0), Op::SliceRef(0, 1, 39), Op::RestoreCount(0), Op::Drop(0)],
        vec![Op::FromVec(b(30), 10), Op::Clone(0), Op::PushSlice(0, b(4)), Op::Drop(1), Op::PushSlice(0, b(4)), Op::PushSlice(0, b(40)), Op::IntoVec(0)],
        vec![Op::FromSlice(b(40)), Op::SliceRef(0, 5, 35), Op::Drop(0), Op::IntoVec(1), Op::PushSlice(1, b(2)), Op::IntoVec(1)],
        vec![Op::FromSlice(b(40)), Op::Mutate(0, vec![VOp::Push(b'x'), VOp::Reserve(100)], false), Op::Mutate(0, vec![VOp::Extend(b(30))], true), Op::PushSlice(0, b(30))],
        vec![Op::Borrowed(b(40)), Op::Clone(0), Op::SliceRef(0, 3, 6), Op::PushSlice(1, b(1)), Op::IntoOwned(2), Op::AsBorrowed(0), Op::IntoBorrowed(0), Op::IntoBorrowed(1), Op::VecFrom(1)],
        vec![Op::FromSlice(b(30)), Op::Clone(0), Op::ShrinkTo(0, 0), Op::WithCapacity(100), Op::ShrinkTo(2, 50), Op::ShrinkTo(2, 10), Op::ShrinkToFit(0)],
        vec![Op::FromVec(b(12), 0), Op::Mutate(0, vec![VOp::Clear, VOp::ShrinkFit], false), Op::Mutate(0, vec![VOp::Extend(b(24)), VOp::Clear], false), Op::Mutate(0, vec![VOp::Extend(b(23)), VOp::Push(b'/')], false), Op::VecFrom(0)],
        vec![Op::New, Op::SliceRefForeign(0, true), Op::SliceRefForeign(0, false), Op::PushSlice(0, b(23)), Op::Clone(0), Op::PushSlice(0, b(1)), Op::IntoVec(0), Op::VecFrom(1)],
        vec![Op::FromVec(b(23), 30), Op::FromVec(b(24), 0), Op::Clone(1), Op::IntoVec(1), Op::VecFrom(1), Op::IntoVec(2), Op::IntoOwned(0), Op::IntoBorrowed(0)],
    ];
    if ty == Ty::Os { return seqs; }
    seqs.into_iter().map(|seq| seq.into_iter().map(|op| match op {
        Op::WithCapacity(_) => Op::New,
        Op::PushSlice(h, x) => Op::Mutate(h, vec![VOp::Extend(x)], false),
        Op::SliceRef(h, ..) | Op::SliceRefU(h, ..) => Op::Clone(h),
        Op::SliceRefForeign(h, _) => Op::AsBorrowed(h),
        op => op,
    }).collect()).collect()
}

fn run_case<B: Backend>(bk: &str, ty: Ty, ops_src: &mut dyn FnMut(&Pool<B>, usize) -> Option<Op>, sum: &mut Summary, w: &mut CaseWriter, case_desc: &str) {
    let mut pool: Pool<B> = Pool::new(ty, bk == "BUnique");
    alloc::reset_window_counters();
    let base = alloc::snap();
    let (mut last_live, mut forgot_guard) = (0i64, false);
    let mut steps: Vec<String> = vec![];
    let mut trace: Vec<String> = vec![];
    let mut nontrivial = false;
    let mut used_with_capacity = false;
    let mut k = 0;
    let mut last = base;
    loop {
        let Some(op) = ops_src(&pool, k) else { break };
        k += 1;
        let before_err = alloc::snap().errors;
        // C07 oracle inputs: is the source of a clone / slice a heap value whose count can still be incremented?
        let share_probe: Option<(usize, [usize; 7], usize)> = match &op {
            Op::Clone(h) | Op::Slice(h, ..) | Op::TrySlice(h, ..) | Op::SliceRef(h, ..) | Op::SliceRefU(h, ..) if pool.live(*h) =>
                pool.hs[*h].as_ref().unwrap().raw().verif_repr().map(|r| (*h, r, pool.hs.len())),
            _ => None,
        };
        if matches!(op, Op::WithCapacity(_)) { used_with_capacity = true; }
        let pre = alloc::snap();
        breadcrumb(&format!("bytes {} bk={} ty={}: {} ; {} -> ?", case_desc, bk, ty.name(), trace.join(" ; "), op.coq()));
        // ordering probe (C04 in the single-threaded driver): if the op's subject shares its buffer with another live handle,
        // sample that buffer's share count, through the OTHER handle, at the first allocation the op makes (the destination of the copy)
        let subject = match &op { Op::Push(h, ..) | Op::PushSlice(h, ..) | Op::Pop(h) | Op::Truncate(h, ..) | Op::Clear(h) | Op::ShrinkTo(h, ..) | Op::ShrinkToFit(h) | Op::ToMutWrite(h, ..) | Op::MakeAscii(h, ..)
            | Op::Mutate(h, ..) | Op::IntoOwned(h) | Op::IntoVec(h) | Op::VecFrom(h) if pool.live(*h) => Some(*h), _ => None };
        let mut probed: Option<usize> = None;
        if let Some(h) = subject {
            // (an empty view is "copied" without any allocation: the first allocation of the op is then not a copy destination)
            if let Some(me) = pool.hs[h].as_ref().unwrap().raw().verif_repr().filter(|r| r[5] >= 1) {
                if let Some(other) = (0..pool.hs.len()).find(|&i| i != h && pool.hs[i].as_ref().map_or(false, |x| x.raw().verif_repr().map_or(false, |q| q[0] == me[0]))) {
                    fn read_count<B: Backend>(p: usize) -> usize { unsafe { &*(p as *const HipByt<'static, B>) }.verif_repr().map_or(usize::MAX, |r| r[6]) }
                    let o: &HipByt<'static, B> = pool.hs[other].as_ref().unwrap().raw();
                    alloc::arm_probe(o as *const _ as usize, read_count::<B>);
                    probed = Some(me[6]);
                }
            }
        }
        let out = pool.exec(&op);
        alloc::set_window(false);
        let probe_min = alloc::disarm_probe();
        if let (Some(before), Some(probe_min)) = (probed, probe_min) {
            if probe_min < before {
                pool.viol.push(format!("{} released its share of the shared buffer (count {} -> {}) BEFORE allocating the private copy of its content: the copy reads a buffer this value no longer keeps alive", op.coq().split(' ').next().unwrap(), before, probe_min));
            }
        }
        let mut s = alloc::snap();
        if out == Out::Panic {
            // the panic machinery allocates: event counters are restored, the live count is not touched
            alloc::N_ALLOC.store(last.allocs, std::sync::atomic::Ordering::SeqCst);
            alloc::N_FREE.store(last.frees, std::sync::atomic::Ordering::SeqCst);
            alloc::N_REALLOC.store(last.reallocs, std::sync::atomic::Ordering::SeqCst);
            s = alloc::snap();
        }
        last = s;
        if s.errors != before_err { pool.viol.push(format!("allocator monitor: {}", alloc::error_detail())); }
        // C07: cloning, or slicing to more than the inline capacity, a shareable heap value allocates nothing and stays in the same buffer
        if let (Some((_h, r, new_id)), Out::New(nid)) = (share_probe, &out) {
            if *nid == new_id && bk != "BUnique" && r[6] < usize::MAX {
                let piece = pool.hs[*nid].as_ref().unwrap().raw();
                let long_piece = piece.len() > 23 || matches!(op, Op::Clone(_));
                if long_piece {
                    match piece.verif_repr() {
                        Some(q) if q[0] == r[0] => {}
                        other => pool.viol.push(format!("{} of a shareable heap value did not share its buffer (piece: {:?})", op.coq().split(' ').next().unwrap(), other.map(|q| q[0] == r[0]))),
                    }
                    if s.allocs != pre.allocs { pool.viol.push(format!("{} of a shareable heap value allocated {} block(s)", op.coq().split(' ').next().unwrap(), s.allocs - pre.allocs)); }
                }
            }
        }
        // C07: without any with_capacity in the history every value is normalised, and an empty value is never heap-backed
        if !used_with_capacity {
            for (i, h) in pool.hs.iter().enumerate() { if let Some(h) = h { let r = h.raw(); if !r.is_normalized() || (r.is_empty() && r.is_allocated()) { pool.viol.push(format!("h{} (len {}) is heap-backed although it is short and no with_capacity occurred in this history", i, r.len())); } } }
        }
        let obs = pool.observe();
        if obs.contains(" 3 ") { nontrivial = true; }
        sum.evaluations += 1;
        sum.count(op.coq().split(' ').next().unwrap());
        sum.count(&format!("ty={}", ty.name()));
        trace.push(format!("{} -> {}", op.coq(), out.coq()));
        steps.push(format!("BStep ({}) {} {} {} {} {} {}", op.coq(), out.coq(), obs, s.allocs - base.allocs, s.frees - base.frees, s.reallocs - base.reallocs, s.live - base.live));
        last_live = s.live as i64 - base.live as i64;
        // (the count hook of the test harness can also strand a block: a forced count is only exact again after RestoreCount)
        if matches!(op, Op::Mutate(_, _, true) | Op::ForceCount(..)) { forgot_guard = true; }
        if !pool.viol.is_empty() { break; }
    }
    // C03: once every value has been dropped or converted away, every block obtained has been released (a forgotten mutate guard is
    // the one documented way to leak)
    if pool.viol.is_empty() && !forgot_guard && pool.hs.iter().all(|h| h.is_none()) && last_live != 0 {
        pool.viol.push(format!("every value has been dropped or converted away but {} block(s) obtained during this history are still allocated (leak)", last_live));
    }
    if !pool.viol.is_empty() {
        sum.violation(format!("{{\"what\":{},\"observed\":{},\"ops\":{}}}", jstr(&format!("bytes {} bk={} ty={} prof={}", case_desc, bk, ty.name(), profile())),
            jstr(&pool.viol.join(" | ")), jstr(&trace.join(" ; "))));
    } else {
        // C03: when everything is dropped, every block obtained has been released (except leaked guards' buffers, which the model counts too)
    }
    w.push(format!("BCase {} {} [\n    {}]", bk, ty.coq(), steps.join(";\n    ")));
    if nontrivial { sum.nontrivial += 1; }
    if sum.samples.len() < 4000 { sum.sample(jstr(&format!("{} {} {}: {}", bk, ty.name(), case_desc, trace.join(" ; ")))); }
    // release what the case still holds (outside any comparison)
    for h in pool.hs.iter() { if let Some(h) = h { if !pool.unique_backend { if let Some(me) = h.raw().verif_repr() { let n = pool.hs.iter().flatten().filter(|x| x.raw().verif_repr().map_or(false, |r| r[0] == me[0])).count(); h.raw().verif_force_count(n - 1); } } } }
    drop(pool);
}

fn drive<B: Backend>(bk: &str, tier: &str, seed: u64, sum: &mut Summary, w: &mut CaseWriter, filter: Option<&str>, focus: &str) {
    let thorough = tier == "thorough";
    let seed = seed.wrapping_add(match focus { "sharing" => 101, "heap" => 202, "repr" => 303, "ceiling" => 404, "utf8" => 505, _ => 0 });
    // the positional filter: one of the four type names, anything else ("all", nothing) selects every type
    let selected = |ty: Ty| -> bool { match filter { Some(f) if ALL_TY.iter().any(|t| t.name() == f) => f == ty.name(), _ => true } };
    if focus == "utf8" && selected(Ty::Str) { utf8_stream::<B>(bk, thorough, sum, w); }
    if focus == "repr" { repr_sweep::<B>(bk, thorough, sum, w, &selected); }
    for ty in ALL_TY {
        if !selected(ty) { continue; }
        if focus == "utf8" && !ty.is_str() { continue; }
        // corpus first
        for (ci, seq) in corpus(ty).into_iter().enumerate() {
            let ends = seq.clone();
            let mut it = 0;
            let mut src = |p: &Pool<B>, k: usize| -> Option<Op> {
                if k < ends.len() { return Some(ends[k].clone()); }
                // then restore counts and drop everything
                let live: Vec<usize> = (0..p.hs.len()).filter(|&i| p.hs[i].is_some()).collect();
                if live.is_empty() { return None; }
                it += 1;
                if it % 2 == 1 { Some(Op::RestoreCount(live[0])) } else { Some(Op::Drop(live[0])) }
            };
            run_case::<B>(bk, ty, &mut src, sum, w, &format!("corpus#{}", ci));
        }
        // structured random sequences
        let n_cases = if thorough { 400 } else if focus == "content" { 60 } else { 30 };
        let n_cases = if ty.is_wrapper() { n_cases / 2 } else { n_cases };      // fewer op kinds to cover
        for c in 0..n_cases {
            let mut rng = Rng::new(seed.wrapping_mul(1000003).wrapping_add(c as u64 * 7919 + ty.idx() + bk.len() as u64 * 31));
            let n_ops = 15 + rng.below(if thorough { 60 } else { 35 });
            let force_ok = bk != "BUnique" && (focus == "ceiling" || rng.chance(1, 3));
            let mut phase2 = 0usize;
            let mut src = |p: &Pool<B>, k: usize| -> Option<Op> {
                if k < n_ops { return Some(gen_op(&mut rng, p, force_ok)); }
                let live: Vec<usize> = (0..p.hs.len()).filter(|&i| p.hs[i].is_some()).collect();
                if live.is_empty() { return None; }
                phase2 += 1;
                let h = live[rng.below(live.len())];
                if phase2 % 2 == 1 { Some(Op::RestoreCount(h)) } else { Some(Op::Drop(h)) }
            };
            run_case::<B>(bk, ty, &mut src, sum, w, &format!("random#{}", c));
        }
    }
}

/// C06 malformed stream: from_utf8 on every string of 1-3 bytes over the class representatives of Unicode table 3-7
/// (plus well-formed carriers with one ill-formed class embedded at every offset), then ops on the accepted values.
fn utf8_stream<B: Backend>(bk: &str, thorough: bool, sum: &mut Summary, w: &mut CaseWriter) {
    let reps: [u8; 14] = [0x00, 0x7F, 0x80, 0xBF, 0xC0, 0xC2, 0xDF, 0xE0, 0xED, 0xEF, 0xF0, 0xF4, 0xF5, 0xFF];
    let mut inputs: Vec<Vec<u8>> = vec![vec![]];
    for a in reps { inputs.push(vec![a]); for b in reps { inputs.push(vec![a, b]); if thorough || (a >= 0xC0 && a % 3 == 0) { for c in reps { inputs.push(vec![a, b, c]); } } } }
    for bad in [&[0xC0u8, 0x80][..], &[0xED, 0xA0, 0x80], &[0xF4, 0x90, 0x80, 0x80], &[0xE2, 0x82], &[0xF0, 0x9F, 0xA6], &[0x80]] {
        let carrier = "a\u{e9}\u{20ac}\u{1F980}z".as_bytes();
        for off in 0..=carrier.len() { let mut v = carrier[..off].to_vec(); v.extend_from_slice(bad); v.extend_from_slice(&carrier[off..]); inputs.push(v); }
    }
    // boundary sweep: every (start, end) cut, every truncation point and every split point of carriers whose continuation
    // bytes cover both edges of 0x80..=0xBF, in the three representations
    for carrier in ["a\u{c0}\u{2013}\u{10000}z", "\u{7ff}\u{ffff}\u{1F980}\u{10ffff}", "\u{e9}\u{20ac}\u{80}\u{800}\u{bf}q, and a tail that makes it long"] {
        let c = carrier.as_bytes().to_vec();
        let n = c.len().min(16);
        for mk in 0..3 {
            let mut ops: Vec<Op> = vec![match mk { 0 => Op::Borrowed(c.clone()), 1 => Op::FromSlice(c.clone()), _ => Op::FromSlice(c[..n.min(c.len())].to_vec()) }];
            if mk == 2 && std::str::from_utf8(&c[..n]).is_err() { continue; }
            let m = n;
            let mk_op = ops[0].clone();
            for s in 0..=m { for e in s..=m { if thorough || s + 5 >= e { ops.push(Op::TrySlice(0, Bound::Included(s), Bound::Excluded(e))); } } ops.push(Op::TrySlice(0, Bound::Included(s), Bound::Unbounded)); }
            let mut src = |p: &Pool<B>, k: usize| -> Option<Op> {
                if k < ops.len() { return Some(ops[k].clone()); }
                (0..p.hs.len()).find(|&i| p.hs[i].is_some()).map(Op::Drop)
            };
            run_case::<B>(bk, Ty::Str, &mut src, sum, w, &format!("utf8-boundary-sweep slices mk={}", mk));
            // handle i+1 is a clone, truncated at i (a refused truncation panics and leaves it unchanged)
            let mut ops: Vec<Op> = vec![mk_op];
            for _ in 0..=m { ops.push(Op::Clone(0)); }
            for i in 0..=m { ops.push(Op::Truncate(i + 1, i)); }
            let mut src = |p: &Pool<B>, k: usize| -> Option<Op> {
                if k < ops.len() { return Some(ops[k].clone()); }
                (0..p.hs.len()).find(|&i| p.hs[i].is_some()).map(Op::Drop)
            };
            run_case::<B>(bk, Ty::Str, &mut src, sum, w, &format!("utf8-boundary-sweep truncations mk={}", mk));
        }
    }
    for chunk in inputs.chunks(40) {
        let ops: Vec<Op> = chunk.iter().map(|x| Op::FromUtf8(x.clone())).collect();
        let mut k2 = 0usize;
        let mut src = |p: &Pool<B>, k: usize| -> Option<Op> {
            if k < ops.len() { return Some(ops[k].clone()); }
            let live: Vec<usize> = (0..p.hs.len()).filter(|&i| p.hs[i].is_some()).collect();
            if live.is_empty() { return None; }
            k2 += 1;
            // pop each accepted value once, then drop it
            if k2 % 2 == 1 { Some(Op::Pop(live[0])) } else { Some(Op::Drop(live[0])) }
        };
        run_case::<B>(bk, Ty::Str, &mut src, sum, w, "utf8-stream");
    }
}

/// C07 sweep: every constructor x every length 0..=64 (and a few large ones), then clone / long slice / short slice / into_vec.
fn repr_sweep<B: Backend>(bk: &str, thorough: bool, sum: &mut Summary, w: &mut CaseWriter, selected: &dyn Fn(Ty) -> bool) {
    let mut lens: Vec<usize> = (0..=64).collect();
    if thorough { lens.extend_from_slice(&[255, 256, 4096]); }
    for ty in ALL_TY {
        if !selected(ty) { continue; }
        for &n in &lens {
            // quick tier, wrappers: every length around the inline capacity, a sample above
            if ty.is_wrapper() && !thorough && n > 32 && ![40, 47, 48, 63, 64].contains(&n) { continue; }
            let x: Vec<u8> = (0..n).map(|i| b'a' + (i % 26) as u8).collect();
            let mut ops = vec![Op::FromSlice(x.clone()), Op::FromVec(x.clone(), 0), Op::FromVec(x.clone(), 9), Op::Borrowed(x.clone())];
            if ty == Ty::Path { ops.push(Op::New); ops.push(Op::Mutate(4, vec![VOp::Reserve(n), VOp::Extend(x.clone())], false)); } else { ops.push(Op::WithCapacity(n)); ops.push(Op::PushSlice(4, x.clone())); }
            if ty == Ty::Byt { ops.push(Op::TryInline(x.clone())); } else { ops.push(Op::New); }
            for h in 0..5 { ops.push(Op::Clone(h)); }
            if ty.is_wrapper() {
                // same shape with the ops the wrappers have: sub-slices by reference (HipOsStr), clones (HipPath)
                if ty == Ty::Os {
                    ops.push(Op::SliceRef(0, n.min(1), n - n.min(1))); ops.push(Op::SliceRefU(2, 0, n.min(5))); ops.push(Op::SliceRef(3, n / 2, n - n / 2));
                } else { ops.push(Op::Clone(0)); ops.push(Op::Clone(2)); ops.push(Op::Clone(3)); }
                ops.push(Op::Mutate(7, vec![VOp::Clear], false)); ops.push(Op::IntoVec(1)); ops.push(Op::Drop(8)); ops.push(Op::IntoVec(1)); ops.push(Op::ShrinkToFit(2)); ops.push(Op::VecFrom(4)); ops.push(Op::IntoBorrowed(3));
            } else {
            ops.push(Op::TrySlice(0, Bound::Included(1), Bound::Unbounded));
            ops.push(Op::TrySlice(2, Bound::Included(0), Bound::Excluded(n.min(5))));
            ops.push(Op::TrySlice(3, Bound::Included(n / 2), Bound::Unbounded));
            ops.push(Op::Clear(7)); ops.push(Op::IntoVec(1)); ops.push(Op::Drop(8)); ops.push(Op::IntoVec(1)); ops.push(Op::ShrinkToFit(2)); ops.push(Op::Truncate(4, 3));
            }
            let mut src = |p: &Pool<B>, k: usize| -> Option<Op> {
                if k < ops.len() { return Some(ops[k].clone()); }
                (0..p.hs.len()).find(|&i| p.hs[i].is_some()).map(Op::Drop)
            };
            run_case::<B>(bk, ty, &mut src, sum, w, &format!("repr-sweep len={}", n));
        }
    }
}

/// Trait methods with a provided implementation that an impl may override (`Clone::clone_from`), and `Default`: the result must
/// be what the plain method gives -- for clone_from: exactly the representation `src.clone()` has (a heap source is SHARED, at
/// the same offset, with no allocation), whatever the destination held before.  Oracle only (no model op).
fn trait_methods<B: Backend>(bk: &str, sum: &mut Summary) {
    let text: &'static [u8] = b"0123456789abcdefghijklmnopqrstuvwxyzABCDEFGHIJKLMNOPQRSTUVWXYZ";
    let mk = |rep: usize| -> HipByt<'static, B> { match rep {
        0 => HipByt::new(), 1 => HipByt::from(&text[..10]), 2 => HipByt::borrowed(&text[..40]), 3 => HipByt::from(&text[..40]),
        4 => HipByt::<B>::from(text).slice(5..45), 5 => { let mut v = Vec::with_capacity(200); v.extend_from_slice(&text[..30]); HipByt::from(v) },
        _ => { let mut h = HipByt::with_capacity(100); h.push_slice(&text[..8]); h } } };
    let names = ["empty", "inline", "borrowed", "heap", "heap-view", "heap with spare capacity", "short heap (with_capacity)"];
    for src_rep in 0..7 { for dst_rep in 0..7 { for shared_dst in [false, true] {
        sum.evaluations += 1;
        alloc::reset_window_counters();
        let live0 = alloc::snap().live;
        alloc::set_window(true);
        let src = mk(src_rep);
        let mut dst = mk(dst_rep);
        let keep = if shared_dst { Some(dst.clone()) } else { None };
        alloc::set_window(false);
        let want = src.clone();           // what a plain clone looks like (shares when it can)
        drop(want);
        let before = src.verif_repr().map(|r| r[6]);
        alloc::reset_window_counters();
        let a0 = alloc::snap();
        alloc::window(|| dst.clone_from(&src));
        let a1 = alloc::snap();
        let what = format!("trait_methods clone_from: {} <- {} (destination {}) bk={} prof={}", names[dst_rep], names[src_rep], if shared_dst { "shared with a clone" } else { "sole owner" }, bk, profile());
        let mut bad: Vec<String> = vec![];
        if dst.as_slice() != src.as_slice() { bad.push(format!("content {} instead of {}", hex(dst.as_slice()), hex(src.as_slice()))); }
        if kind_of(&dst) != kind_of(&src) || dst.is_normalized() != src.is_normalized() { bad.push(format!("representation {} instead of {}", kind_of(&dst), kind_of(&src))); }
        if let (Some(s), false) = (src.verif_repr(), bk == "BUnique") {
            match dst.verif_repr() {
                Some(d) if d[0] == s[0] && d[4] == s[4] && d[5] == s[5] => { if Some(s[6]) != before.map(|c| c + 1) { bad.push(format!("share count {} after clone_from, {:?} before", s[6], before)); } }
                other => bad.push(format!("the destination does not share the source's buffer at the same offset ({:?} vs {:?})", other.map(|d| (d[0], d[4], d[5])), (s[0], s[4], s[5]))),
            }
            if a1.allocs != a0.allocs { bad.push(format!("clone_from of a shareable heap value allocated {} block(s)", a1.allocs - a0.allocs)); }
        }
        if src.is_borrowed() && dst.as_ptr() != src.as_ptr() { bad.push("a clone of a borrowed value does not point at the borrowed data".into()); }
        if let Some(k) = &keep { if k.as_slice() != mk(dst_rep).as_slice() { bad.push("the destination's former co-owner changed".into()); } }
        if !bad.is_empty() { sum.violation(format!("{{\"what\":{},\"observed\":{},\"expected\":\"exactly what src.clone() gives\"}}", jstr(&what), jstr(&bad.join(" | ")))); }
        // everything this scenario allocated is released once its values are gone (clone_from must release what the destination held)
        let src_is_heap = src.is_allocated();
        alloc::set_window(true);
        drop(src); drop(dst); drop(keep);
        alloc::set_window(false);
        let live1 = alloc::snap().live;
        if live1 != live0 { sum.violation(format!("{{\"what\":{},\"observed\":{},\"expected\":\"every block released\"}}", jstr(&what), jstr(&format!("{} block(s) obtained by the source, the destination and clone_from are still allocated after all of them were dropped (leak); source on the heap: {}", live1 as i64 - live0 as i64, src_is_heap)))); }
        // the wrappers forward clone_from too
        let (ss, mut ds) = (HipStr::<B>::try_from(mk(src_rep)).unwrap(), HipStr::<B>::try_from(mk(dst_rep)).unwrap());
        ds.clone_from(&ss);
        if ds.as_bytes() != ss.as_bytes() || kind_of(ds.verif_bytes()) != kind_of(ss.verif_bytes()) { sum.violation(format!("{{\"what\":{},\"observed\":\"content or representation differs\",\"expected\":\"exactly what src.clone() gives\"}}", jstr(&what.replace("clone_from:", "HipStr clone_from:")))); }
    } } }
    // every way of importing bytes into a HipStr rejects an ill-formed byte at EVERY position (and accepts the well-formed text)
    for n in [8usize, 16, 17, 24, 33] {
        for pos in 0..n {
            for bad in [0x80u8, 0xC3, 0xFF] {
                let mut v: Vec<u8> = (0..n).map(|i| b'a' + (i % 26) as u8).collect(); v[pos] = bad;
                if std::str::from_utf8(&v).is_ok() { continue; }
                sum.evaluations += 4;
                let accepted: Vec<&str> = [("TryFrom<&[u8]>", HipStr::<B>::try_from(&v[..]).is_ok()), ("TryFrom<Vec<u8>>", HipStr::<B>::try_from(v.clone()).is_ok()),
                    ("TryFrom<HipByt>", HipStr::<B>::try_from(HipByt::<B>::from(&v[..])).is_ok()), ("from_utf8", HipStr::<B>::from_utf8(HipByt::<B>::from(&v[..])).is_ok())].iter().filter(|x| x.1).map(|x| x.0).collect();
                if !accepted.is_empty() { sum.violation(format!("{{\"what\":{},\"observed\":{},\"expected\":\"Err: the bytes are not UTF-8\"}}", jstr(&format!("trait_methods import of ill-formed bytes bk={} bytes={} (byte {:#04x} at index {})", bk, hex(&v), bad, pos)), jstr(&format!("accepted by {:?}", accepted)))); }
            }
        }
        let good: Vec<u8> = (0..n).map(|i| b'a' + (i % 26) as u8).collect();
        sum.evaluations += 1;
        if HipStr::<B>::try_from(&good[..]).map(|h| h.as_bytes() == &good[..]).unwrap_or(false) == false || HipStr::<B>::try_from(good.clone()).is_err() { sum.violation(format!("{{\"what\":{},\"observed\":\"rejected or altered\",\"expected\":\"Ok\"}}", jstr(&format!("trait_methods import of ASCII text of {} bytes bk={}", n, bk)))); }
    }
    sum.evaluations += 4;
    if !(HipByt::<B>::default().is_inline() && HipByt::<B>::default().is_empty() && HipStr::<B>::default().is_inline() && Os::<B>::default().is_inline() && Pth::<B>::default().is_inline()) {
        sum.violation(format!("{{\"what\":{},\"observed\":\"not an empty inline value\",\"expected\":\"empty, inline, no allocation\"}}", jstr(&format!("trait_methods Default::default() bk={}", bk))));
    }
}

// ------------------------------------------------------------------------------------------------ wrappers_api
// Std-differential checks of the HipOsStr / HipPath surface and of every From / Into / TryFrom / AsRef / Borrow conversion of
// {bytes,string,os_string,path}/convert.rs, on every representation. No Coq cases: std is the oracle for the content, and the
// representation rules are: a move between Hip types keeps the representation (a borrowed source stays the same borrow), a value
// built from a std value is normalised (inline up to 23 bytes, heap above; `Cow::Borrowed` gives a borrow).
type Byt<B> = HipByt<'static, B>;
type Str<B> = HipStr<'static, B>;
type Os<B> = HipOsStr<'static, B>;
type Pth<B> = HipPath<'static, B>;

fn kind_of<B: Backend>(b: &HipByt<'_, B>) -> &'static str { if b.is_borrowed() { "borrowed" } else if b.is_inline() { "inline" } else { "heap" } }

/// What a resulting Hip value must look like.
#[derive(Clone, Copy)]
struct Exp { kind: &'static str, norm: bool, ptr: Option<usize> }
impl Exp {
    /// the representation of `b` itself (moves, clones of a borrow, handed-back originals); the data pointer is pinned for a
    /// borrow and, when `pin_heap`, for a heap value (inline data moves with the value)
    fn of<B: Backend>(b: &HipByt<'_, B>, pin_heap: bool) -> Exp {
        let kind = kind_of(b);
        Exp { kind, norm: b.is_normalized(), ptr: if kind == "borrowed" || (kind == "heap" && pin_heap) { Some(b.as_ptr() as usize) } else { None } }
    }
    /// a normalised value built from `len` bytes of a std value
    fn fresh(len: usize) -> Exp { Exp { kind: if len <= 23 { "inline" } else { "heap" }, norm: true, ptr: None } }
    fn borrow_of(src: &[u8]) -> Exp { Exp { kind: "borrowed", norm: true, ptr: Some(src.as_ptr() as usize) } }
}

struct Chk<'a> { sum: &'a mut Summary, bk: &'a str, rep: &'static str, input: String }
impl Chk<'_> {
    fn cmp(&mut self, method: &str, observed: String, expected: String) {
        self.sum.evaluations += 1;
        self.sum.count("wrappers_api");
        if observed != expected {
            self.sum.violation(format!("{{\"what\":{},\"observed\":{},\"expected\":{}}}",
                jstr(&format!("wrappers_api {} rep={} bk={} input={} prof={}", method, self.rep, self.bk, self.input, profile())), jstr(&observed), jstr(&expected)));
        }
    }
    /// a std result: the bytes
    fn std_(&mut self, method: &str, got: &[u8], exp: &[u8]) { self.cmp(method, hex(got), hex(exp)); }
    /// a Hip result: the bytes, the representation, normalisation, and (when pinned) the data pointer
    fn hip<B: Backend>(&mut self, method: &str, got: &HipByt<'_, B>, exp: &[u8], e: Exp) {
        let same = e.ptr.map_or(true, |p| p == got.as_ptr() as usize);
        self.cmp(method, format!("{} {} normalized={} same_buffer={}", hex(got.as_slice()), kind_of(got), got.is_normalized(), same),
            format!("{} {} normalized={} same_buffer=true", hex(exp), e.kind, e.norm));
    }
}

const WRAPPER_REPS: [&str; 4] = ["borrowed", "owned", "heap-spare", "heap-shared"];
/// The value under test in representation `mk`: borrowed / owned (inline up to 23 bytes, else sole-owner heap) / heap with spare
/// capacity (not normalised when short) / heap shared with a second handle (returned, to be kept alive). None when `mk` adds nothing.
fn mk_os<B: Backend>(mk: usize, x: &[u8], leaked: &'static [u8]) -> Option<(Os<B>, Option<Os<B>>)> {
    match mk {
        0 => Some((Os::<B>::borrowed(os(leaked)), None)),
        1 => Some((Os::<B>::from(os(x)), None)),
        2 => { let mut h = Os::<B>::with_capacity(x.len() + 40); h.push(os(x)); Some((h, None)) }
        _ => { if x.len() <= 23 { return None; } let h = Os::<B>::from(os(x)); let k = h.clone(); Some((h, Some(k))) }
    }
}

fn wrappers_api<B: Backend>(bk: &str, sum: &mut Summary) {
    let long: Vec<u8> = (0..40u8).map(|i| b'a' + i % 26).collect();
    let mut inputs: Vec<Vec<u8>> = vec![
        vec![], b"a".to_vec(), b"abc".to_vec(), long[..23].to_vec(), long[..24].to_vec(), long.clone(),
        b"/".to_vec(), b"a/b".to_vec(), b"/abs/path".to_vec(), b".".to_vec(), b"..".to_vec(), b"a/./b".to_vec(), b"a/../b".to_vec(), b"../up".to_vec(),
        b"dir/".to_vec(), b"a//b".to_vec(), b"/usr/lib/with/a/long/tail/of/components/./and/../dots/".to_vec(), b"twenty-three/bytes/long".to_vec(), b"twenty-four/bytes/long/.".to_vec(),
        // truncated sequences of every length (the replacement character is 3 bytes long, like a 4-byte sequence cut after its third byte)
        b"\xF0\x9F\xA6".to_vec(), b"ab\xF0\x9F\xA6".to_vec(), b"\xF0\x9F\xA6z".to_vec(), b"\xE2\x82".to_vec(), b"x\xF0\x9Fy".to_vec(), b"\xF0\x9F\xA6\xF0\x9F\xA6".to_vec(),
        vec![0x80], vec![0xFF], b"a\x80/b\xFF".to_vec(), b"caf\xC3\xA9/\xE2\x82\xAC".to_vec(), b"\xC3".to_vec(), b"ok-then-\xED\xA0\x80-surrogate".to_vec(),
    ];
    inputs.push({ let mut v = long.clone(); v[17] = 0xFF; v[30] = 0x80; v });
    inputs.push({ let mut v = long[..23].to_vec(); v[22] = 0x80; v });
    inputs.push({ let mut v = long[..24].to_vec(); v[0] = 0xFF; v[12] = b'/'; v });
    let args: [&[u8]; 10] = [b"", b"rel", b"x/y", b"/abs", b"/", b"..", b".", b"\xFFz", b"trailing/", b"a-relative-argument/longer-than-the-inline-capacity"];

    for x in &inputs {
        let leaked: &'static [u8] = Box::leak(x.clone().into_boxed_slice());
        let utf8: Option<&str> = std::str::from_utf8(x).ok();
        let sutf8: Option<&'static str> = std::str::from_utf8(leaked).ok();
        for mk in 0..WRAPPER_REPS.len() {
            let Some((probe, _keep)) = mk_os::<B>(mk, x, leaked) else { continue };
            let mut c = Chk { sum: &mut *sum, bk, rep: WRAPPER_REPS[mk], input: hex(x) };
            let os_ = || mk_os::<B>(mk, x, leaked).unwrap();
            let pth = || { let (o, k) = mk_os::<B>(mk, x, leaked).unwrap(); (Pth::<B>::from(o), k) };
            // the representation the maker promises
            let want = match mk { 0 => "borrowed", 1 => if x.len() <= 23 { "inline" } else { "heap" }, _ => "heap" };
            c.cmp("maker", kind_of(probe.verif_bytes()).to_string(), want.to_string());
            let sole_owner = probe.is_allocated() && (mk != 3 || bk == "BUnique");
            drop(probe); drop(_keep);

            // ---- HipOsStr: views
            { let (h, _k) = os_();
              c.std_("HipOsStr::as_os_str", h.as_os_str().as_bytes(), x);
              c.std_("HipOsStr as AsRef<OsStr>", AsRef::<OsStr>::as_ref(&h).as_bytes(), x);
              c.std_("HipOsStr as AsRef<Path>", AsRef::<Path>::as_ref(&h).as_os_str().as_bytes(), x);
              c.std_("HipOsStr as Borrow<OsStr>", std::borrow::Borrow::<OsStr>::borrow(&h).as_bytes(), x);
              c.cmp("HipOsStr::len/is_empty", format!("{} {}", h.len(), h.is_empty()), format!("{} {}", x.len(), x.is_empty())); }
            // ---- HipOsStr::to_str / to_str_lossy / into_str
            { let (h, _k) = os_(); let e = Exp::of(h.verif_bytes(), false);
              match (h.to_str(), os(x).to_str()) {
                  (Some(g), Some(w)) => c.hip("HipOsStr::to_str", g.verif_bytes(), w.as_bytes(), e),
                  (g, w) => c.cmp("HipOsStr::to_str", format!("is_some={}", g.is_some()), format!("is_some={}", w.is_some())),
              }
              c.hip("HipOsStr::to_str leaves self", h.verif_bytes(), x, Exp::of(h.verif_bytes(), true)); }
            { let (h, _k) = os_();
              let w = os(x).to_string_lossy();
              let e = match &w { Cow::Borrowed(_) => Exp::of(h.verif_bytes(), false), Cow::Owned(s) => Exp::fresh(s.len()) };
              let g = h.to_str_lossy();
              c.hip("HipOsStr::to_str_lossy", g.verif_bytes(), w.as_bytes(), e);
              c.cmp("HipOsStr::to_str_lossy text", g.as_str().to_string(), w.to_string()); }
            { let (h, _k) = os_(); let e = Exp::of(h.verif_bytes(), true);
              match (h.into_str(), utf8) {
                  (Ok(g), Some(w)) => c.hip("HipOsStr::into_str", g.verif_bytes(), w.as_bytes(), e),
                  (Err(orig), None) => c.hip("HipOsStr::into_str Err(original)", orig.verif_bytes(), x, e),
                  (g, w) => c.cmp("HipOsStr::into_str", format!("is_ok={}", g.is_ok()), format!("is_ok={}", w.is_some())),
              } }
            // ---- HipOsStr::into_bytes / into_os_string and the Into conversions
            { let (h, _k) = os_(); let e = Exp::of(h.verif_bytes(), true); c.hip("HipOsStr::into_bytes", &h.into_bytes(), x, e); }
            { let (h, _k) = os_(); let e = Exp::of(h.verif_bytes(), true); c.hip("HipByt::from(HipOsStr)", &Byt::<B>::from(h), x, e); }
            { let (h, _k) = os_(); let e = Exp::of(h.verif_bytes(), true); let p = h.verif_bytes().as_ptr() as usize;
              match h.into_os_string() {
                  Ok(v) => { c.cmp("HipOsStr::into_os_string", format!("Ok same_buffer={}", v.as_bytes().as_ptr() as usize == p), format!("{} same_buffer=true", if sole_owner { "Ok" } else { "Err" })); c.std_("HipOsStr::into_os_string Ok", v.as_bytes(), x); }
                  Err(orig) => { c.cmp("HipOsStr::into_os_string", "Err".into(), if sole_owner { "Ok" } else { "Err" }.into()); c.hip("HipOsStr::into_os_string Err(original)", orig.verif_bytes(), x, e); }
              } }
            { let (h, _k) = os_(); c.std_("OsString::from(HipOsStr)", OsString::from(h).as_bytes(), x); }
            { let (h, _k) = os_(); c.std_("Vec<u8>::from(HipOsStr)", &Vec::<u8>::from(h), x); }
            { let (h, _k) = os_(); let b = h.is_borrowed(); let p = h.verif_bytes().as_ptr() as usize;
              let w: Cow<'static, OsStr> = h.into();
              c.cmp("Cow<OsStr>::from(HipOsStr)", format!("{} borrowed={}", hex(w.as_bytes()), matches!(w, Cow::Borrowed(r) if r.as_bytes().as_ptr() as usize == p)), format!("{} borrowed={}", hex(x), b)); }
            { let (h, _k) = os_(); let e = Exp::of(h.verif_bytes(), true); c.hip("HipPath::from(HipOsStr)", Pth::<B>::from(h).verif_bytes(), x, e); }
            { let (h, _k) = os_(); let e = Exp::of(h.verif_bytes(), bk != "BUnique"); c.hip("HipPath::from(&HipOsStr)", Pth::<B>::from(&h).verif_bytes(), x, e); }

            // ---- HipPath: views
            { let (p, _k) = pth();
              c.std_("HipPath::as_path", p.as_path().as_os_str().as_bytes(), x);
              c.std_("HipPath::as_os_str", p.as_os_str().as_bytes(), x);
              c.std_("HipPath as AsRef<Path>", AsRef::<Path>::as_ref(&p).as_os_str().as_bytes(), x);
              c.std_("HipPath as AsRef<OsStr>", AsRef::<OsStr>::as_ref(&p).as_bytes(), x);
              c.std_("HipPath as Borrow<Path>", std::borrow::Borrow::<Path>::borrow(&p).as_os_str().as_bytes(), x);
              c.std_("HipPath as Borrow<OsStr>", std::borrow::Borrow::<OsStr>::borrow(&p).as_bytes(), x);
              c.cmp("HipPath components", format!("{:?}", p.components().collect::<Vec<_>>()), format!("{:?}", pa(x).components().collect::<Vec<_>>()));
              c.cmp("HipPath file_name/parent", format!("{:?} {:?}", p.file_name(), p.parent()), format!("{:?} {:?}", pa(x).file_name(), pa(x).parent())); }
            // ---- appends through the guard (this revision has no HipPath::push / push_str: `mutate()` derefs to PathBuf)
            for a in args {
                { let (mut p, _k) = pth();
                  p.mutate().push(pa(a));
                  let mut w = PathBuf::from(OsString::from_vec(x.clone())); w.push(pa(a));
                  let wb = w.as_os_str().as_bytes();
                  c.hip(&format!("HipPath::mutate().push({})", hex(a)), p.verif_bytes(), wb, Exp::fresh(wb.len()));
                  if let Some(k) = &_k { c.std_(&format!("HipPath::mutate().push({}) leaves the other owner", hex(a)), k.as_bytes(), x); } }
                { let (mut p, _k) = pth();
                  p.mutate().as_mut_os_string().push(os(a));
                  let mut w = OsString::from_vec(x.clone()); w.push(os(a));
                  c.hip(&format!("HipPath::mutate().as_mut_os_string().push({})", hex(a)), p.verif_bytes(), w.as_bytes(), Exp::fresh(w.len())); }
                { let (mut h, _k) = os_();
                  let spare = h.verif_bytes().capacity() >= x.len() + a.len() && h.is_allocated() && sole_owner;
                  let e = if spare { Exp { norm: x.len() + a.len() > 23, ..Exp::of(h.verif_bytes(), true) } } else { Exp::fresh(x.len() + a.len()) };
                  h.push(os(a));
                  let mut w = OsString::from_vec(x.clone()); w.push(os(a));
                  // in place when the sole owner has room; otherwise a fresh normalised value
                  c.hip(&format!("HipOsStr::push({})", hex(a)), h.verif_bytes(), w.as_bytes(), e); }
                { let (mut h, _k) = os_();
                  h.mutate().push(os(a));
                  let mut w = OsString::from_vec(x.clone()); w.push(os(a));
                  c.hip(&format!("HipOsStr::mutate().push({})", hex(a)), h.verif_bytes(), w.as_bytes(), Exp::fresh(w.len())); }
            }
            // ---- HipPath::into_os_str / into_str / into_os_string / into_path_buf and the Into conversions
            { let (p, _k) = pth(); let e = Exp::of(p.verif_bytes(), true); c.hip("HipPath::into_os_str", p.into_os_str().verif_bytes(), x, e); }
            { let (p, _k) = pth(); let e = Exp::of(p.verif_bytes(), true); c.hip("HipOsStr::from(HipPath)", Os::<B>::from(p).verif_bytes(), x, e); }
            { let (p, _k) = pth(); let e = Exp::of(p.verif_bytes(), bk != "BUnique"); c.hip("HipOsStr::from(&HipPath)", Os::<B>::from(&p).verif_bytes(), x, e); }
            { let (p, _k) = pth(); let e = Exp::of(p.verif_bytes(), true);
              match (p.into_str(), utf8) {
                  (Ok(g), Some(w)) => c.hip("HipPath::into_str", g.verif_bytes(), w.as_bytes(), e),
                  (Err(orig), None) => c.hip("HipPath::into_str Err(original)", orig.verif_bytes(), x, e),
                  (g, w) => c.cmp("HipPath::into_str", format!("is_ok={}", g.is_ok()), format!("is_ok={}", w.is_some())),
              } }
            { let (p, _k) = pth(); let e = Exp::of(p.verif_bytes(), true); let ptr = p.verif_bytes().as_ptr() as usize;
              match p.into_os_string() {
                  Ok(v) => { c.cmp("HipPath::into_os_string", format!("Ok same_buffer={}", v.as_bytes().as_ptr() as usize == ptr), format!("{} same_buffer=true", if sole_owner { "Ok" } else { "Err" })); c.std_("HipPath::into_os_string Ok", v.as_bytes(), x); }
                  Err(orig) => { c.cmp("HipPath::into_os_string", "Err".into(), if sole_owner { "Ok" } else { "Err" }.into()); c.hip("HipPath::into_os_string Err(original)", orig.verif_bytes(), x, e); }
              } }
            { let (p, _k) = pth(); let e = Exp::of(p.verif_bytes(), true); let ptr = p.verif_bytes().as_ptr() as usize;
              match p.into_path_buf() {
                  Ok(v) => { c.cmp("HipPath::into_path_buf", format!("Ok same_buffer={}", v.as_os_str().as_bytes().as_ptr() as usize == ptr), format!("{} same_buffer=true", if sole_owner { "Ok" } else { "Err" })); c.std_("HipPath::into_path_buf Ok", v.as_os_str().as_bytes(), x); }
                  Err(orig) => { c.cmp("HipPath::into_path_buf", "Err".into(), if sole_owner { "Ok" } else { "Err" }.into()); c.hip("HipPath::into_path_buf Err(original)", orig.verif_bytes(), x, e); }
              } }
            { let (p, _k) = pth(); c.std_("PathBuf::from(HipPath)", PathBuf::from(p).as_os_str().as_bytes(), x); }
            { let (p, _k) = pth(); c.std_("OsString::from(HipPath)", OsString::from(p).as_bytes(), x); }
            { let (p, _k) = pth(); let b = p.is_borrowed(); let ptr = p.verif_bytes().as_ptr() as usize;
              let w: Cow<'static, Path> = p.into();
              c.cmp("Cow<Path>::from(HipPath)", format!("{} borrowed={}", hex(w.as_os_str().as_bytes()), matches!(w, Cow::Borrowed(r) if r.as_os_str().as_bytes().as_ptr() as usize == ptr)), format!("{} borrowed={}", hex(x), b)); }

            // ---- HipByt in the same representation
            { let (h, _k) = os_(); let b = h.into_bytes();
              c.std_("HipByt as AsRef<[u8]>", AsRef::<[u8]>::as_ref(&b), x);
              let (bb, ptr) = (b.is_borrowed(), b.as_ptr() as usize);
              let w: Cow<'static, [u8]> = b.into();
              c.cmp("Cow<[u8]>::from(HipByt)", format!("{} borrowed={}", hex(&w), matches!(w, Cow::Borrowed(r) if r.as_ptr() as usize == ptr)), format!("{} borrowed={}", hex(x), bb)); }
            { let (h, _k) = os_(); c.std_("Vec<u8>::from(HipByt)", &Vec::<u8>::from(h.into_bytes()), x); }
            { let (h, _k) = os_(); let b = h.into_bytes(); let e = Exp::of(&b, true);
              match (Str::<B>::try_from(b), utf8) {
                  (Ok(g), Some(w)) => c.hip("HipStr::try_from(HipByt)", g.verif_bytes(), w.as_bytes(), e),
                  (Err(er), None) => { c.cmp("HipStr::try_from(HipByt) Err utf8_error", format!("{:?}", er.utf8_error()), format!("{:?}", std::str::from_utf8(x).unwrap_err())); c.hip("HipStr::try_from(HipByt) Err(original)", &er.into_bytes(), x, e); }
                  (g, w) => c.cmp("HipStr::try_from(HipByt)", format!("is_ok={}", g.is_ok()), format!("is_ok={}", w.is_some())),
              } }
            { let (h, _k) = os_(); let b = h.into_bytes(); let e = Exp::of(&b, bk != "BUnique");
              match (Str::<B>::try_from(&b), utf8) {
                  (Ok(g), Some(w)) => c.hip("HipStr::try_from(&HipByt)", g.verif_bytes(), w.as_bytes(), e),
                  (Err(er), None) => c.hip("HipStr::try_from(&HipByt) Err(bytes)", &er.into_bytes(), x, e),
                  (g, w) => c.cmp("HipStr::try_from(&HipByt)", format!("is_ok={}", g.is_ok()), format!("is_ok={}", w.is_some())),
              }
              c.hip("HipStr::try_from(&HipByt) leaves the source", &b, x, Exp::of(&b, true)); }

            // ---- HipStr in the same representation (well-formed inputs)
            if utf8.is_some() {
                let str_ = || { let (o, k) = mk_os::<B>(mk, x, leaked).unwrap(); (o.into_str().ok().expect("harness: well-formed input"), k) };
                { let (s, _k) = str_();
                  c.std_("HipStr as AsRef<str>", AsRef::<str>::as_ref(&s).as_bytes(), x);
                  c.std_("HipStr as AsRef<[u8]>", AsRef::<[u8]>::as_ref(&s), x);
                  c.std_("HipStr as AsRef<OsStr>", AsRef::<OsStr>::as_ref(&s).as_bytes(), x);
                  c.std_("HipStr as AsRef<Path>", AsRef::<Path>::as_ref(&s).as_os_str().as_bytes(), x); }
                { let (s, _k) = str_(); let e = Exp::of(s.verif_bytes(), true); c.hip("HipOsStr::from(HipStr)", Os::<B>::from(s).verif_bytes(), x, e); }
                { let (s, _k) = str_(); let e = Exp::of(s.verif_bytes(), bk != "BUnique"); c.hip("HipOsStr::from(&HipStr)", Os::<B>::from(&s).verif_bytes(), x, e); }
                { let (s, _k) = str_(); let e = Exp::of(s.verif_bytes(), true); c.hip("HipPath::from(HipStr)", Pth::<B>::from(s).verif_bytes(), x, e); }
                { let (s, _k) = str_(); let e = Exp::of(s.verif_bytes(), bk != "BUnique"); c.hip("HipPath::from(&HipStr)", Pth::<B>::from(&s).verif_bytes(), x, e); }
                { let (s, _k) = str_(); let e = Exp::of(s.verif_bytes(), true); c.hip("HipByt::from(HipStr)", &Byt::<B>::from(s), x, e); }
                { let (s, _k) = str_(); c.std_("String::from(HipStr)", String::from(s).as_bytes(), x); }
                { let (s, _k) = str_(); c.std_("OsString::from(HipStr)", OsString::from(s).as_bytes(), x); }
                { let (s, _k) = str_(); c.std_("Vec<u8>::from(HipStr)", &Vec::<u8>::from(s), x); }
                { let (s, _k) = str_(); let b = s.is_borrowed(); let ptr = s.as_ptr() as usize;
                  let w: Cow<'static, str> = s.into();
                  c.cmp("Cow<str>::from(HipStr)", format!("{} borrowed={}", hex(w.as_bytes()), matches!(w, Cow::Borrowed(r) if r.as_ptr() as usize == ptr)), format!("{} borrowed={}", hex(x), b)); }
            }
        }

        // ---- from std values (once per input)
        let mut c = Chk { sum: &mut *sum, bk, rep: "from-std", input: hex(x) };
        let n = x.len();
        let vec_spare = || { let mut v = Vec::with_capacity(n + 9); v.extend_from_slice(x); v };
        c.hip("HipOsStr::from(&OsStr)", Os::<B>::from(os(x)).verif_bytes(), x, Exp::fresh(n));
        c.hip("HipOsStr::from(OsString)", Os::<B>::from(OsString::from_vec(x.clone())).verif_bytes(), x, Exp::fresh(n));
        c.hip("HipOsStr::from(OsString with spare capacity)", Os::<B>::from(OsString::from_vec(vec_spare())).verif_bytes(), x, Exp::fresh(n));
        c.hip("HipOsStr::borrowed(&OsStr)", Os::<B>::borrowed(os(leaked)).verif_bytes(), x, Exp::borrow_of(leaked));
        c.hip("HipOsStr::borrowed(&Path)", Os::<B>::borrowed(pa(leaked)).verif_bytes(), x, Exp::borrow_of(leaked));
        c.hip("HipPath::from(&Path)", Pth::<B>::from(pa(x)).verif_bytes(), x, Exp::fresh(n));
        c.hip("HipPath::from(&OsStr)", Pth::<B>::from(os(x)).verif_bytes(), x, Exp::fresh(n));
        c.hip("HipPath::from(OsString)", Pth::<B>::from(OsString::from_vec(x.clone())).verif_bytes(), x, Exp::fresh(n));
        c.hip("HipPath::from(PathBuf)", Pth::<B>::from(PathBuf::from(OsString::from_vec(vec_spare()))).verif_bytes(), x, Exp::fresh(n));
        c.hip("HipPath::borrowed(&Path)", Pth::<B>::borrowed(pa(leaked)).verif_bytes(), x, Exp::borrow_of(leaked));
        c.hip("HipPath::borrowed(&OsStr)", Pth::<B>::borrowed(os(leaked)).verif_bytes(), x, Exp::borrow_of(leaked));
        c.hip("HipPath::from(Cow<OsStr>::Borrowed)", Pth::<B>::from(Cow::Borrowed(os(leaked))).verif_bytes(), x, Exp::borrow_of(leaked));
        c.hip("HipPath::from(Cow<OsStr>::Owned)", Pth::<B>::from(Cow::<'static, OsStr>::Owned(OsString::from_vec(x.clone()))).verif_bytes(), x, Exp::fresh(n));
        c.hip("HipPath::from(Cow<Path>::Borrowed)", Pth::<B>::from(Cow::Borrowed(pa(leaked))).verif_bytes(), x, Exp::borrow_of(leaked));
        c.hip("HipPath::from(Cow<Path>::Owned)", Pth::<B>::from(Cow::<'static, Path>::Owned(pa(x).to_path_buf())).verif_bytes(), x, Exp::fresh(n));
        c.hip("HipByt::from(&[u8])", &Byt::<B>::from(&x[..]), x, Exp::fresh(n));
        c.hip("HipByt::from(Vec<u8>)", &Byt::<B>::from(vec_spare()), x, Exp::fresh(n));
        c.hip("HipByt::from(Box<[u8]>)", &Byt::<B>::from(x.clone().into_boxed_slice()), x, Exp::fresh(n));
        c.hip("HipByt::from(Cow<[u8]>::Borrowed)", &Byt::<B>::from(Cow::Borrowed(leaked)), x, Exp::borrow_of(leaked));
        c.hip("HipByt::from(Cow<[u8]>::Owned)", &Byt::<B>::from(Cow::<'static, [u8]>::Owned(x.clone())), x, Exp::fresh(n));
        if let Ok(a) = <&[u8; 3]>::try_from(&x[..]) { c.hip("HipByt::from(&[u8; 3])", &Byt::<B>::from(a), x, Exp::fresh(n)); }
        if let Ok(a) = <&[u8; 24]>::try_from(&x[..]) { c.hip("HipByt::from(&[u8; 24])", &Byt::<B>::from(a), x, Exp::fresh(n)); }
        match (Str::<B>::try_from(&x[..]), utf8) {
            (Ok(g), Some(w)) => c.hip("HipStr::try_from(&[u8])", g.verif_bytes(), w.as_bytes(), Exp::fresh(n)),
            (Err(er), None) => c.cmp("HipStr::try_from(&[u8]) Err", format!("{:?}", er), format!("{:?}", std::str::from_utf8(x).unwrap_err())),
            (g, w) => c.cmp("HipStr::try_from(&[u8])", format!("is_ok={}", g.is_ok()), format!("is_ok={}", w.is_some())),
        }
        match (Str::<B>::try_from(vec_spare()), String::from_utf8(x.clone())) {
            (Ok(g), Ok(w)) => c.hip("HipStr::try_from(Vec<u8>)", g.verif_bytes(), w.as_bytes(), Exp::fresh(n)),
            (Err(er), Err(w)) => { c.cmp("HipStr::try_from(Vec<u8>) Err", format!("{:?}", er.utf8_error()), format!("{:?}", w.utf8_error())); c.std_("HipStr::try_from(Vec<u8>) Err(original)", &er.into_bytes(), x); }
            (g, w) => c.cmp("HipStr::try_from(Vec<u8>)", format!("is_ok={}", g.is_ok()), format!("is_ok={}", w.is_ok())),
        }
        if let (Some(s), Some(ls)) = (utf8, sutf8) {
            let string_spare = || String::from_utf8(vec_spare()).unwrap();
            c.hip("HipStr::from(&str)", Str::<B>::from(s).verif_bytes(), x, Exp::fresh(n));
            c.hip("HipStr::from(String)", Str::<B>::from(string_spare()).verif_bytes(), x, Exp::fresh(n));
            c.hip("HipStr::from(Box<str>)", Str::<B>::from(Box::<str>::from(s)).verif_bytes(), x, Exp::fresh(n));
            c.hip("HipStr::from(Cow<str>::Borrowed)", Str::<B>::from(Cow::Borrowed(ls)).verif_bytes(), x, Exp::borrow_of(leaked));
            c.hip("HipStr::from(Cow<str>::Owned)", Str::<B>::from(Cow::<'static, str>::Owned(string_spare())).verif_bytes(), x, Exp::fresh(n));
            c.hip("HipOsStr::from(&str)", Os::<B>::from(s).verif_bytes(), x, Exp::fresh(n));
            c.hip("HipOsStr::from(String)", Os::<B>::from(string_spare()).verif_bytes(), x, Exp::fresh(n));
            c.hip("HipOsStr::from(Box<str>)", Os::<B>::from(Box::<str>::from(s)).verif_bytes(), x, Exp::fresh(n));
            c.hip("HipOsStr::from(Cow<str>::Borrowed)", Os::<B>::from(Cow::Borrowed(ls)).verif_bytes(), x, Exp::borrow_of(leaked));
            c.hip("HipOsStr::from(Cow<str>::Owned)", Os::<B>::from(Cow::<'static, str>::Owned(string_spare())).verif_bytes(), x, Exp::fresh(n));
            c.hip("HipOsStr::borrowed(&str)", Os::<B>::borrowed(ls).verif_bytes(), x, Exp::borrow_of(leaked));
            c.hip("HipOsStr::from_static", Os::<B>::from_static(ls).verif_bytes(), x, Exp::borrow_of(leaked));
            c.hip("HipPath::from(&str)", Pth::<B>::from(s).verif_bytes(), x, Exp::fresh(n));
            c.hip("HipPath::from(String)", Pth::<B>::from(string_spare()).verif_bytes(), x, Exp::fresh(n));
            c.hip("HipPath::from(Box<str>)", Pth::<B>::from(Box::<str>::from(s)).verif_bytes(), x, Exp::fresh(n));
            c.hip("HipPath::from(Cow<str>::Borrowed)", Pth::<B>::from(Cow::Borrowed(ls)).verif_bytes(), x, Exp::borrow_of(leaked));
            c.hip("HipPath::from(Cow<str>::Owned)", Pth::<B>::from(Cow::<'static, str>::Owned(string_spare())).verif_bytes(), x, Exp::fresh(n));
            c.hip("HipPath::borrowed(&str)", Pth::<B>::borrowed(ls).verif_bytes(), x, Exp::borrow_of(leaked));
            c.hip("HipPath::from_static", Pth::<B>::from_static(ls).verif_bytes(), x, Exp::borrow_of(leaked));
        }
    }
}

pub fn run(out_dir: &Path, tier: &str, seed: u64, rest: &[String]) {
    silence_panics();
    let mut sum = Summary::default();
    let header = "From Hip Require Import Base Range Utf8 StrRange Bytes CasesBytes.\n";
    let mut w = CaseWriter::new(out_dir, &format!("bytes_{}", profile()), header, "Eval vm_compute in (bad_cases cases 0).\n", if tier == "thorough" { 40 } else { 12 });
    let filter = rest.first().map(|s| s.as_str());
    let focus = rest.iter().find_map(|a| a.strip_prefix("focus=")).unwrap_or("content").to_string();
    drive::<Arc>("BArc", tier, seed, &mut sum, &mut w, filter, &focus);
    drive::<Rc>("BRc", tier, seed, &mut sum, &mut w, filter, &focus);
    drive::<Unique>("BUnique", tier, seed, &mut sum, &mut w, filter, &focus);
    // std-differential checks of the HipOsStr / HipPath surface and of the conversions (no Coq case)
    wrappers_api::<Arc>("BArc", &mut sum);
    wrappers_api::<Rc>("BRc", &mut sum);
    wrappers_api::<Unique>("BUnique", &mut sum);
    trait_methods::<Arc>("BArc", &mut sum); trait_methods::<Rc>("BRc", &mut sum); trait_methods::<Unique>("BUnique", &mut sum);
    w.flush();
    sum.files = w.files.clone();
    sum.notes.push(format!("profile={} allocator_errors={}", profile(), alloc::error_detail()));
    sum.print();
}
