//! hipverif: correspondence harness (Tie B) -- drives the real hipstr implementation and prints/writes what it did.
//! Usage: hipverif <driver> --out DIR [--tier quick|thorough] [--seed N] [driver args]
mod alloc;
mod util;
mod range;
mod bytes;
mod vecs;
mod concat;
mod counter;
mod traits;
mod codec;
mod cmp;
mod strapi;
mod adversary;

#[global_allocator]
static GLOBAL: alloc::Tracking = alloc::Tracking;

use std::path::PathBuf;

fn main() {
    let args: Vec<String> = std::env::args().collect();
    if args.len() < 2 {
        eprintln!("usage: hipverif <driver> --out DIR [--tier T] [--seed N]");
        std::process::exit(2);
    }
    let driver = args[1].clone();
    let mut out = PathBuf::from(".");
    let mut tier = std::env::var("VERIF_TIER").unwrap_or_else(|_| "quick".into());
    let mut seed: u64 = std::env::var("VERIF_SEED").ok().and_then(|s| s.parse().ok()).unwrap_or(1);
    let mut rest: Vec<String> = vec![];
    let mut i = 2;
    while i < args.len() {
        match args[i].as_str() {
            "--out" => { out = PathBuf::from(&args[i + 1]); i += 2; }
            "--tier" => { tier = args[i + 1].clone(); i += 2; }
            "--seed" => { seed = args[i + 1].parse().unwrap_or(1); i += 2; }
            _ => { rest.push(args[i].clone()); i += 1; }
        }
    }
    let _ = &rest;
    match driver.as_str() {
        "range" => range::run(&out, &tier, seed),
        "bytes" => bytes::run(&out, &tier, seed, &rest),
        "vec" => vecs::run(&out, &tier, seed, &rest),
        "concat" => concat::run(&out, &tier, seed, &rest),
        "counter" => counter::run(&out, &tier, seed, &rest),
        "traits" => traits::run(&out, &tier, seed, &rest),
        "codec" => codec::run(&out, &tier, seed, &rest),
        "cmp" => cmp::run(&out, &tier, seed, &rest),
        "strapi" => strapi::run(&out, &tier, seed, &rest),
        "adversary" => adversary::run(&out, &tier, seed, &rest),
        _ => { eprintln!("unknown driver {}", driver); std::process::exit(2); }
    }
}
