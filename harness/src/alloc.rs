//! Tracking global allocator (the implementation-side monitor of C03/C07/C10/C14/C16).
//!
//! * every block is remembered (address, size, align) in a static open-addressing table -- the allocator itself never allocates;
//! * a `dealloc`/`realloc` of an unknown address (double free, foreign pointer) or with another layout is *recorded* and not forwarded;
//! * 32-byte red zones around every block are checked when it is released;
//! * fresh memory is filled with 0xA5, freed memory with 0xDE and kept in a quarantine ring whose poison is checked on eviction
//!   (a dangling view therefore reads 0xDE.., a write after free is detected);
//! * events are counted only inside a *window* (the duration of one operation of the code under test); blocks allocated inside a
//!   window are flagged so that "live blocks obtained by the code under test" can be compared with the model after every step.
use std::alloc::{GlobalAlloc, Layout, System};
use std::sync::atomic::{AtomicBool, AtomicU64, AtomicUsize, Ordering::SeqCst};

pub struct Tracking;

const SLOTS: usize = 1 << 18;
const RZ: usize = 32;
const QUAR: usize = 64;
const TOMB: usize = 1;
const HUGE: usize = 64 << 20;

#[derive(Clone, Copy)]
struct Slot { ptr: usize, size: usize, align: usize, windowed: bool }

struct Table {
    slots: [Slot; SLOTS],
    quarantine: [(usize, usize, usize, usize); QUAR], // (base, total, align, user ptr)
    qpos: usize,
}

static LOCK: AtomicBool = AtomicBool::new(false);
static mut TABLE: Table = Table { slots: [Slot { ptr: 0, size: 0, align: 0, windowed: false }; SLOTS], quarantine: [(0, 0, 0, 0); QUAR], qpos: 0 };

static WINDOW: AtomicBool = AtomicBool::new(false);
pub static N_ALLOC: AtomicU64 = AtomicU64::new(0);
pub static N_FREE: AtomicU64 = AtomicU64::new(0);
pub static N_REALLOC: AtomicU64 = AtomicU64::new(0);
pub static MAX_REQUEST: AtomicUsize = AtomicUsize::new(0);
pub static WINDOW_LIVE: AtomicU64 = AtomicU64::new(0);
pub static ERRORS: AtomicU64 = AtomicU64::new(0);
pub static ERR_DOUBLE_FREE: AtomicU64 = AtomicU64::new(0);
pub static ERR_LAYOUT: AtomicU64 = AtomicU64::new(0);
pub static ERR_REDZONE: AtomicU64 = AtomicU64::new(0);
pub static ERR_POISON: AtomicU64 = AtomicU64::new(0);
/// allocation requests above this size fail (return null) instead of being forwarded, when non-zero
pub static LIMIT: AtomicUsize = AtomicUsize::new(0);
pub static REFUSED: AtomicU64 = AtomicU64::new(0);

fn lock() { while LOCK.compare_exchange(false, true, SeqCst, SeqCst).is_err() { std::hint::spin_loop(); } }
fn unlock() { LOCK.store(false, SeqCst); }

fn hash(p: usize) -> usize { (p >> 4).wrapping_mul(0x9E37_79B9_7F4A_7C15) >> (64 - 18) }

#[allow(static_mut_refs)]
unsafe fn insert(s: Slot) {
    let t = &mut TABLE;
    let mut i = hash(s.ptr);
    loop {
        let p = t.slots[i].ptr;
        if p == 0 || p == TOMB { t.slots[i] = s; return; }
        i = (i + 1) & (SLOTS - 1);
    }
}
#[allow(static_mut_refs)]
unsafe fn remove(ptr: usize) -> Option<Slot> {
    let t = &mut TABLE;
    let mut i = hash(ptr);
    let mut n = 0;
    loop {
        let p = t.slots[i].ptr;
        if p == 0 || n > SLOTS { return None; }
        if p == ptr { let s = t.slots[i]; t.slots[i].ptr = TOMB; return Some(s); }
        i = (i + 1) & (SLOTS - 1);
        n += 1;
    }
}
#[allow(static_mut_refs)]
unsafe fn find(ptr: usize) -> Option<Slot> {
    let t = &TABLE;
    let mut i = hash(ptr);
    let mut n = 0;
    loop {
        let p = t.slots[i].ptr;
        if p == 0 || n > SLOTS { return None; }
        if p == ptr { return Some(t.slots[i]); }
        i = (i + 1) & (SLOTS - 1);
        n += 1;
    }
}

fn pad(align: usize) -> usize { if align > RZ { align } else { RZ } }

/// Ordering probe: while armed, the FIRST allocation made inside an accounting window samples `PROBE_FN(PROBE_ARG)` (a read of a
/// share counter through the verification hook: no allocation, no lock) and stores it in `PROBE_MIN` (later allocations belong to what the operation does with its own private buffer).  The bytes driver
/// uses it to check that a shared buffer's share is not handed back BEFORE the private copy of its content is allocated
/// (a copy made after the release could read memory another thread has freed in between).
pub static PROBE_ARG: AtomicUsize = AtomicUsize::new(0);
pub static PROBE_FN: AtomicUsize = AtomicUsize::new(0);
pub static PROBE_MIN: AtomicUsize = AtomicUsize::new(0);
pub static PROBE_HIT: AtomicBool = AtomicBool::new(false);
pub fn arm_probe(arg: usize, f: fn(usize) -> usize) { PROBE_HIT.store(false, SeqCst); PROBE_FN.store(f as usize, SeqCst); PROBE_ARG.store(arg, SeqCst); }
/// the sample taken at the first allocation, if there was one
pub fn disarm_probe() -> Option<usize> { PROBE_ARG.store(0, SeqCst); if PROBE_HIT.load(SeqCst) { Some(PROBE_MIN.load(SeqCst)) } else { None } }

unsafe fn raw_alloc(layout: Layout) -> *mut u8 {
    let lim = LIMIT.load(SeqCst);
    if WINDOW.load(SeqCst) {
        MAX_REQUEST.fetch_max(layout.size(), SeqCst);
        let arg = PROBE_ARG.load(SeqCst);
        if arg != 0 && !PROBE_HIT.load(SeqCst) { let f: fn(usize) -> usize = std::mem::transmute(PROBE_FN.load(SeqCst)); PROBE_MIN.store(f(arg), SeqCst); PROBE_HIT.store(true, SeqCst); }
    }
    if lim != 0 && layout.size() > lim {
        REFUSED.fetch_add(1, SeqCst);
        return std::ptr::null_mut();
    }
    let p = pad(layout.align());
    let total = layout.size() + 2 * p;
    let base = System.alloc(Layout::from_size_align_unchecked(total, layout.align().max(16)));
    if base.is_null() { return base; }
    std::ptr::write_bytes(base, 0xFD, p);
    if layout.size() <= HUGE { std::ptr::write_bytes(base.add(p), 0xA5, layout.size()); }
    std::ptr::write_bytes(base.add(p + layout.size()), 0xFD, p);
    let user = base.add(p);
    let windowed = WINDOW.load(SeqCst);
    lock();
    insert(Slot { ptr: user as usize, size: layout.size(), align: layout.align(), windowed });
    unlock();
    if windowed { WINDOW_LIVE.fetch_add(1, SeqCst); }
    user
}

#[allow(static_mut_refs)]
unsafe fn raw_dealloc(ptr: *mut u8, layout: Layout) -> bool {
    lock();
    let s = remove(ptr as usize);
    unlock();
    let Some(s) = s else {
        ERRORS.fetch_add(1, SeqCst); ERR_DOUBLE_FREE.fetch_add(1, SeqCst);
        return false;
    };
    if s.size != layout.size() || s.align != layout.align() {
        ERRORS.fetch_add(1, SeqCst); ERR_LAYOUT.fetch_add(1, SeqCst);
    }
    if s.windowed { WINDOW_LIVE.fetch_sub(1, SeqCst); }
    let p = pad(s.align);
    let base = ptr.sub(p);
    let mut ok = true;
    for i in 0..p {
        if *base.add(i) != 0xFD || *base.add(p + s.size + i) != 0xFD { ok = false; }
    }
    if !ok { ERRORS.fetch_add(1, SeqCst); ERR_REDZONE.fetch_add(1, SeqCst); }
    if s.size <= HUGE { std::ptr::write_bytes(ptr, 0xDE, s.size); }
    // quarantine
    lock();
    let t = &mut TABLE;
    let old = t.quarantine[t.qpos];
    t.quarantine[t.qpos] = (base as usize, s.size + 2 * p, s.align.max(16), ptr as usize);
    t.qpos = (t.qpos + 1) % QUAR;
    unlock();
    if old.0 != 0 {
        let (obase, ototal, oalign, ouser) = old;
        let opad = ouser - obase;
        let osize = ototal - 2 * opad;
        let mut intact = true;
        if osize <= HUGE { for i in 0..osize { if *(ouser as *const u8).add(i) != 0xDE { intact = false; } } }
        if !intact { ERRORS.fetch_add(1, SeqCst); ERR_POISON.fetch_add(1, SeqCst); }
        System.dealloc(obase as *mut u8, Layout::from_size_align_unchecked(ototal, oalign));
    }
    true
}

unsafe impl GlobalAlloc for Tracking {
    unsafe fn alloc(&self, layout: Layout) -> *mut u8 {
        let p = raw_alloc(layout);
        if WINDOW.load(SeqCst) && !p.is_null() { N_ALLOC.fetch_add(1, SeqCst); }
        p
    }
    unsafe fn dealloc(&self, ptr: *mut u8, layout: Layout) {
        if raw_dealloc(ptr, layout) && WINDOW.load(SeqCst) { N_FREE.fetch_add(1, SeqCst); }
    }
    unsafe fn realloc(&self, ptr: *mut u8, layout: Layout, new_size: usize) -> *mut u8 {
        lock();
        let s = find(ptr as usize);
        unlock();
        let Some(s) = s else {
            ERRORS.fetch_add(1, SeqCst); ERR_DOUBLE_FREE.fetch_add(1, SeqCst);
            return std::ptr::null_mut();
        };
        let new_layout = Layout::from_size_align_unchecked(new_size, layout.align());
        let w = WINDOW.swap(s.windowed, SeqCst);       // the new block inherits the flag of the old one
        let np = raw_alloc(new_layout);
        WINDOW.store(w, SeqCst);
        if np.is_null() { return np; }
        std::ptr::copy_nonoverlapping(ptr, np, s.size.min(new_size));
        raw_dealloc(ptr, layout);
        if w { N_REALLOC.fetch_add(1, SeqCst); MAX_REQUEST.fetch_max(new_size, SeqCst); }
        np
    }
}

/// Counters snapshot: (allocs, frees, reallocs, live blocks obtained in windows, errors).
#[derive(Clone, Copy, Debug, PartialEq, Eq)]
pub struct Snap { pub allocs: u64, pub frees: u64, pub reallocs: u64, pub live: u64, pub errors: u64 }
pub fn snap() -> Snap {
    Snap { allocs: N_ALLOC.load(SeqCst), frees: N_FREE.load(SeqCst), reallocs: N_REALLOC.load(SeqCst), live: WINDOW_LIVE.load(SeqCst), errors: ERRORS.load(SeqCst) }
}
pub fn error_detail() -> String {
    format!("double_free/unknown={} layout={} redzone={} poison={}", ERR_DOUBLE_FREE.load(SeqCst), ERR_LAYOUT.load(SeqCst), ERR_REDZONE.load(SeqCst), ERR_POISON.load(SeqCst))
}
/// Runs `f` inside an accounting window.
pub fn window<R>(f: impl FnOnce() -> R) -> R {
    WINDOW.store(true, SeqCst);
    let r = f();
    WINDOW.store(false, SeqCst);
    r
}
pub fn set_window(on: bool) { WINDOW.store(on, SeqCst); }
/// Runs `f` (harness bookkeeping) outside the accounting window, restoring the window state afterwards.
pub fn pause<R>(f: impl FnOnce() -> R) -> R { let w = WINDOW.swap(false, SeqCst); let r = f(); WINDOW.store(w, SeqCst); r }
/// The block (start, size) containing `addr`, if any -- linear probe over the table (slow; used for sampled checks only).
#[allow(static_mut_refs)]
pub fn block_containing(addr: usize) -> Option<(usize, usize)> {
    lock();
    let mut r = None;
    unsafe {
        for s in TABLE.slots.iter() {
            if s.ptr > TOMB && addr >= s.ptr && addr < s.ptr + s.size.max(1) { r = Some((s.ptr, s.size)); break; }
        }
    }
    unlock();
    r
}
/// Exact lookup of a live block by its start address.
pub fn block_at(addr: usize) -> Option<usize> {
    lock();
    let r = unsafe { find(addr) }.map(|s| s.size);
    unlock();
    r
}
pub fn reset_window_counters() {
    N_ALLOC.store(0, SeqCst); N_FREE.store(0, SeqCst); N_REALLOC.store(0, SeqCst); MAX_REQUEST.store(0, SeqCst);
}
