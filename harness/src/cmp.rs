//! `cmp` driver (C12): every comparison between Hip types and std types in both operand orders, Hash and Borrow-based map
//! lookups, over all ordered pairs of short byte strings on {a, b, '/', '.'} (plus heap-sized variants), against std's answer
//! for the std views; std's answers are also printed as Coq cases for the model of byte-wise / path-wise comparison.
use crate::util::*;
use hipstr::bytes::HipByt;
use hipstr::os_string::HipOsStr;
use hipstr::path::HipPath;
use hipstr::string::HipStr;
use hipstr::{Arc, Backend, Rc, Unique};
use std::borrow::{Borrow, Cow};
use std::cmp::Ordering;
use std::collections::hash_map::DefaultHasher;
use std::collections::{BTreeMap, HashMap};
use std::ffi::{OsStr, OsString};
use std::hash::{Hash, Hasher};
use std::os::unix::ffi::OsStrExt;
use std::path::{Path, PathBuf};

fn h<T: Hash + ?Sized>(t: &T) -> u64 { let mut s = DefaultHasher::new(); t.hash(&mut s); s.finish() }
fn ordc(o: Ordering) -> &'static str { match o { Ordering::Less => "Lt", Ordering::Equal => "Eq", Ordering::Greater => "Gt" } }

struct Ctx<'a> { sum: &'a mut Summary, bk: &'static str }
impl Ctx<'_> {
    fn bad(&mut self, what: String, observed: String, expected: String) {
        self.sum.violation(format!("{{\"what\":{},\"observed\":{},\"expected\":{}}}", jstr(&what), jstr(&observed), jstr(&expected)));
    }
}

/// checks `l OP r` and `r OP l` for eq / ne / partial_cmp against the expected std answer
macro_rules! both {
    ($cx:expr, $lname:expr, $rname:expr, $l:expr, $r:expr, $eq:expr, $ord:expr, $x:expr, $y:expr) => {{
        $cx.sum.evaluations += 1;
        let (l, r) = (&$l, &$r);
        let bkname = $cx.bk;
        let what = |op: &str| format!("cmp {} {} {} bk={} x={} y={}", $lname, op, $rname, bkname, hex($x), hex($y));
        if (*l == *r) != $eq { $cx.bad(what("=="), format!("{}", *l == *r), format!("{}", $eq)); }
        if (*r == *l) != $eq { $cx.bad(what("== (reversed)"), format!("{}", *r == *l), format!("{}", $eq)); }
        if (*l != *r) == $eq { $cx.bad(what("!="), format!("{}", *l != *r), format!("{}", !$eq)); }
        let pc = l.partial_cmp(r);
        if pc != Some($ord) { $cx.bad(what("partial_cmp"), format!("{:?}", pc), format!("{:?}", Some($ord))); }
        let pr = r.partial_cmp(l);
        if pr != Some($ord.reverse()) { $cx.bad(what("partial_cmp (reversed)"), format!("{:?}", pr), format!("{:?}", Some($ord.reverse()))); }
        if (pc == Some(Ordering::Equal)) != (*l == *r) { $cx.bad(what("== vs partial_cmp"), format!("eq={} cmp={:?}", *l == *r, pc), "coherent".into()); }
        // the operators have provided implementations that an impl may override: each must be std's answer, in both operand orders
        let o = $ord;
        let want = [o == Ordering::Less, o != Ordering::Greater, o == Ordering::Greater, o != Ordering::Less];
        let got = [*l < *r, *l <= *r, *l > *r, *l >= *r];
        if got != want { $cx.bad(what("<, <=, >, >="), format!("{:?}", got), format!("{:?}", want)); }
        let gotr = [*r > *l, *r >= *l, *r < *l, *r <= *l];
        if gotr != want { $cx.bad(what("(reversed) >, >=, <, <="), format!("{:?}", gotr), format!("{:?}", want)); }
    }};
}

macro_rules! eq_only {
    ($cx:expr, $lname:expr, $rname:expr, $l:expr, $r:expr, $eq:expr, $x:expr, $y:expr) => {{
        $cx.sum.evaluations += 1;
        let (l, r) = (&$l, &$r);
        let bkname = $cx.bk;
        let what = |op: &str| format!("cmp {} {} {} bk={} x={} y={}", $lname, op, $rname, bkname, hex($x), hex($y));
        if (*l == *r) != $eq { $cx.bad(what("=="), format!("{}", *l == *r), format!("{}", $eq)); }
        if (*r == *l) != $eq { $cx.bad(what("== (reversed)"), format!("{}", *r == *l), format!("{}", $eq)); }
    }};
}

fn pairs<B: Backend, B2: Backend>(cx: &mut Ctx, x: &[u8], y: &[u8]) {
    let (sx, sy) = (std::str::from_utf8(x).ok(), std::str::from_utf8(y).ok());
    let (ox, oy) = (OsStr::from_bytes(x), OsStr::from_bytes(y));
    let (px, py) = (Path::new(ox), Path::new(oy));
    let beq = x == y; let bord = x.cmp(y);
    let peq = px == py; let pord = px.cmp(py);
    // ---- HipByt
    let hb: HipByt<'static, B> = HipByt::from(x);
    both!(cx, "HipByt", "[u8]", hb, *y, beq, bord, x, y);
    both!(cx, "HipByt", "&[u8]", hb, y, beq, bord, x, y);
    both!(cx, "HipByt", "Vec<u8>", hb, y.to_vec(), beq, bord, x, y);
    both!(cx, "HipByt", "&Vec<u8>", hb, &y.to_vec(), beq, bord, x, y);
    both!(cx, "HipByt", "Box<[u8]>", hb, Box::<[u8]>::from(y), beq, bord, x, y);
    both!(cx, "HipByt", "Cow<[u8]>", hb, Cow::Borrowed(y), beq, bord, x, y);
    both!(cx, "HipByt", "HipByt<B2>", hb, HipByt::<'static, B2>::borrowed(Box::leak(y.to_vec().into_boxed_slice())), beq, bord, x, y);
    both!(cx, "HipByt", "BStr", hb, *bstr::BStr::new(y), beq, bord, x, y);
    both!(cx, "HipByt", "BString", hb, bstr::BString::from(y), beq, bord, x, y);
    // ---- HipStr (x well-formed; the OsStr / BStr operands may hold any bytes)
    if let Some(sx) = sx {
        let hs: HipStr<'static, B> = HipStr::from(sx);
        if let Some(sy) = sy {
            both!(cx, "HipStr", "str", hs, *sy, beq, bord, x, y);
            both!(cx, "HipStr", "&str", hs, sy, beq, bord, x, y);
            both!(cx, "HipStr", "String", hs, sy.to_string(), beq, bord, x, y);
            eq_only!(cx, "HipStr", "Box<str>", hs, Box::<str>::from(sy), beq, x, y);
            eq_only!(cx, "HipStr", "Cow<str>", hs, Cow::Borrowed(sy), beq, x, y);
            both!(cx, "HipStr", "HipStr<B2>", hs, HipStr::<'static, B2>::from(sy), beq, bord, x, y);
            cx.sum.evaluations += 1;
                    if beq && h(&hs) != h(&HipStr::<B2>::from(sy)) { cx.bad(format!("hash of equal HipStr values bk={} x={}", cx.bk, hex(x)), "differs".into(), "equal".into()); }
        }
        both!(cx, "HipStr", "OsStr", hs, *oy, beq, bord, x, y);
        both!(cx, "HipStr", "&OsStr", hs, oy, beq, bord, x, y);
        both!(cx, "HipStr", "OsString", hs, oy.to_os_string(), beq, bord, x, y);
        both!(cx, "HipStr", "BStr", hs, *bstr::BStr::new(y), beq, bord, x, y);
    }
    // ---- HipOsStr: byte-wise against OsStr-family, path-wise against Path-family (as std's OsStr does)
    let ho: HipOsStr<'static, B> = HipOsStr::from(ox);
    both!(cx, "HipOsStr", "OsStr", ho, *oy, beq, bord, x, y);
    both!(cx, "HipOsStr", "&OsStr", ho, oy, beq, bord, x, y);
    both!(cx, "HipOsStr", "OsString", ho, oy.to_os_string(), beq, bord, x, y);
    both!(cx, "HipOsStr", "Box<OsStr>", ho, Box::<OsStr>::from(oy), beq, bord, x, y);
    both!(cx, "HipOsStr", "Cow<OsStr>", ho, Cow::Borrowed(oy), beq, bord, x, y);
    both!(cx, "HipOsStr", "HipOsStr<B2>", ho, HipOsStr::<'static, B2>::from(oy), beq, bord, x, y);
    both!(cx, "HipOsStr", "Path", ho, *py, peq, pord, x, y);
    both!(cx, "HipOsStr", "&Path", ho, py, peq, pord, x, y);
    both!(cx, "HipOsStr", "PathBuf", ho, py.to_path_buf(), peq, pord, x, y);
    both!(cx, "HipOsStr", "Cow<Path>", ho, Cow::Borrowed(py), peq, pord, x, y);
    // ---- HipPath: always path-wise
    let hp: HipPath<'static, B> = HipPath::from(px);
    both!(cx, "HipPath", "Path", hp, *py, peq, pord, x, y);
    both!(cx, "HipPath", "&Path", hp, py, peq, pord, x, y);
    both!(cx, "HipPath", "PathBuf", hp, py.to_path_buf(), peq, pord, x, y);
    both!(cx, "HipPath", "&PathBuf", hp, &py.to_path_buf(), peq, pord, x, y);
    both!(cx, "HipPath", "Box<Path>", hp, Box::<Path>::from(py), peq, pord, x, y);
    both!(cx, "HipPath", "Cow<Path>", hp, Cow::Borrowed(py), peq, pord, x, y);
    both!(cx, "HipPath", "OsStr", hp, *oy, peq, pord, x, y);
    both!(cx, "HipPath", "&OsStr", hp, oy, peq, pord, x, y);
    both!(cx, "HipPath", "OsString", hp, oy.to_os_string(), peq, pord, x, y);
    both!(cx, "HipPath", "Cow<OsStr>", hp, Cow::Borrowed(oy), peq, pord, x, y);
    both!(cx, "HipPath", "HipPath<B2>", hp, HipPath::<'static, B2>::from(py), peq, pord, x, y);
    // Ord (same type)
    cx.sum.evaluations += 3;
    if hb.cmp(&HipByt::<B>::from(y)) != bord { cx.bad(format!("cmp HipByt Ord bk={} x={} y={}", cx.bk, hex(x), hex(y)), "differs".into(), format!("{:?}", bord)); }
    if ho.cmp(&HipOsStr::<B>::from(oy)) != bord { cx.bad(format!("cmp HipOsStr Ord bk={} x={} y={}", cx.bk, hex(x), hex(y)), "differs".into(), format!("{:?}", bord)); }
    if hp.cmp(&HipPath::<B>::from(py)) != pord { cx.bad(format!("cmp HipPath Ord bk={} x={} y={}", cx.bk, hex(x), hex(y)), "differs".into(), format!("{:?}", pord)); }
    // equal values hash equally
    if beq { if h(&hb) != h(&HipByt::<B2>::from(y)) || h(&ho) != h(&HipOsStr::<B2>::from(oy)) { cx.bad(format!("hash of equal values bk={} x={}", cx.bk, hex(x)), "differs".into(), "equal".into()); } }
    if peq && h(&hp) != h(&HipPath::<B2>::from(py)) { cx.bad(format!("hash of equal HipPath values bk={} x={} y={}", cx.bk, hex(x), hex(y)), "differs".into(), "equal".into()); }
    // Borrow: a lookup by the borrowed form finds the entry exactly when the borrowed forms are equal
    macro_rules! lookup { ($owner:expr, $oname:expr, $tname:expr, $key:expr, $T:ty) => {{
        cx.sum.evaluations += 2;
        let mut hm: HashMap<_, u8> = HashMap::new(); hm.insert($owner.clone(), 1);
        let mut bm: BTreeMap<_, u8> = BTreeMap::new(); bm.insert($owner.clone(), 1);
        let stored: &$T = $owner.borrow();
        let should = stored == $key;
        let got_h = hm.get::<$T>($key).is_some();
        let got_b = bm.get::<$T>($key).is_some();
        if got_h != should { cx.bad(format!("cmp {}: Borrow<{}> HashMap lookup bk={} stored={} key={}", $oname, $tname, cx.bk, hex(x), hex(y)), format!("found={}", got_h), format!("found={}", should)); }
        if got_b != should { cx.bad(format!("cmp {}: Borrow<{}> BTreeMap lookup bk={} stored={} key={}", $oname, $tname, cx.bk, hex(x), hex(y)), format!("found={}", got_b), format!("found={}", should)); }
        // the borrowed form must compare and hash exactly like the owner
        let owner_y = $owner.clone();
        let _ = owner_y;
    }}; }
    lookup!(hb, "HipByt", "[u8]", y, [u8]);
    lookup!(hb, "HipByt", "BStr", bstr::BStr::new(y), bstr::BStr);
    if let Some(sx) = sx {
        let hs: HipStr<'static, B> = HipStr::from(sx);
        if let Some(sy) = sy { lookup!(hs, "HipStr", "str", sy, str); }
        lookup!(hs, "HipStr", "BStr", bstr::BStr::new(y), bstr::BStr);
    }
    lookup!(ho, "HipOsStr", "OsStr", oy, OsStr);
    lookup!(hp, "HipPath", "Path", py, Path);
    lookup!(hp, "HipPath", "OsStr", oy, OsStr);
    // owner-vs-borrowed coherence stated directly: owner equality must coincide with equality of the borrowed forms
    cx.sum.evaluations += 1;
    let hp2: HipPath<'static, B> = HipPath::from(py);
    let (b1, b2): (&OsStr, &OsStr) = (hp.borrow(), hp2.borrow());
    if (hp == hp2) != (b1 == b2) { cx.bad(format!("cmp HipPath: Borrow<OsStr> equality coherence bk={} x={} y={}", cx.bk, hex(x), hex(y)), format!("owner eq {} / borrowed eq {}", hp == hp2, b1 == b2), "same".into()); }
    let _ = (PathBuf::new(), OsString::new());
}

/// Hip-vs-Hip on values that alias one buffer (sub-views of one borrowed slice / of one heap allocation): same start with other
/// lengths, same end, identical, overlapping.  The verdict must be std's verdict on the viewed bytes, whatever the addresses.
fn aliased<B: Backend>(sum: &mut Summary, bk: &'static str, text: &'static str, heap: bool) {
    let n = text.len();
    let cuts: Vec<usize> = [0usize, 1, 2, 24, 25, 30, n - 1, n].into_iter().filter(|&c| c <= n).collect();
    let mut ranges: Vec<(usize, usize)> = vec![];
    for &a in &cuts { for &b in &cuts { if a <= b { ranges.push((a, b)); } } }
    let whole_b: HipByt<'static, B> = if heap { HipByt::from(text.as_bytes()) } else { HipByt::borrowed(text.as_bytes()) };
    let whole_s: HipStr<'static, B> = if heap { HipStr::from(text) } else { HipStr::borrowed(text) };
    let whole_o: HipOsStr<'static, B> = if heap { HipOsStr::from(text) } else { HipOsStr::borrowed(text) };
    for &(a, b) in &ranges { for &(c, d) in &ranges {
        let (x, y) = (&text.as_bytes()[a..b], &text.as_bytes()[c..d]);
        let mut cx = Ctx { sum, bk };
        let tag = |t: &str| format!("cmp {} vs {} on two views [{}..{}] and [{}..{}] of one {} buffer bk={} x={} y={}", t, t, a, b, c, d, if heap { "heap" } else { "borrowed" }, bk, hex(x), hex(y));
        macro_rules! same { ($t:expr, $l:expr, $r:expr, $eq:expr, $ord:expr) => {{
            cx.sum.evaluations += 1;
            let (l, r) = (&$l, &$r);
            if (*l == *r) != $eq { cx.bad(tag($t) + " ==", format!("{}", *l == *r), format!("{}", $eq)); }
            if l.partial_cmp(r) != Some($ord) { cx.bad(tag($t) + " partial_cmp", format!("{:?}", l.partial_cmp(r)), format!("{:?}", Some($ord))); }
            if l.cmp(r) != $ord { cx.bad(tag($t) + " cmp", format!("{:?}", l.cmp(r)), format!("{:?}", $ord)); }
            if $eq && h(l) != h(r) { cx.bad(tag($t) + " hash of equal values", "differs".into(), "equal".into()); }
        }}; }
        same!("HipByt", whole_b.slice(a..b), whole_b.slice(c..d), x == y, x.cmp(y));
        same!("HipStr", whole_s.slice(a..b), whole_s.slice(c..d), x == y, x.cmp(y));
        let (ox, oy) = (OsStr::from_bytes(x), OsStr::from_bytes(y));
        let wb = whole_o.as_os_str().as_bytes();
        let (lo, ro) = (whole_o.slice_ref(OsStr::from_bytes(&wb[a..b])), whole_o.slice_ref(OsStr::from_bytes(&wb[c..d])));
        same!("HipOsStr", lo, ro, x == y, x.cmp(y));
        let (px, py) = (Path::new(ox), Path::new(oy));
        same!("HipPath", HipPath::<'static, B>::from(lo.clone()), HipPath::<'static, B>::from(ro.clone()), px == py, px.cmp(py));
    } }
}

pub fn run(out_dir: &std::path::Path, tier: &str, _seed: u64, _rest: &[String]) {
    let mut sum = Summary::default();
    let header = "From Hip Require Import Base Cmp CasesCmp.\n";
    let mut w = CaseWriter::new(out_dir, &format!("cmp_{}", profile()), header, "Eval vm_compute in (bad_cmpcases cases 0).\n", 1500);
    let alpha = [b'a', b'b', b'/', b'.'];
    let maxlen = if tier == "thorough" { 4 } else { 3 };
    let mut strs: Vec<Vec<u8>> = vec![vec![]];
    let mut frontier: Vec<Vec<u8>> = vec![vec![]];
    for _ in 0..maxlen { let mut next = vec![]; for s in &frontier { for c in alpha { let mut t = s.clone(); t.push(c); next.push(t); } } strs.extend(next.iter().cloned()); frontier = next; }
    // heap-sized variants with common prefixes
    let long = "a".repeat(30);
    for tail in ["", "/", "/b", "/./b", "b", "/../b"] { strs.push(format!("{}{}", long, tail).into_bytes()); strs.push(format!("/{}{}", long, tail).into_bytes()); }
    // operands that are not UTF-8 (OsStr / Path / byte-string families; a HipStr can still be compared WITH them)
    for t in [&b"\x80"[..], b"a\x80", b"\xff", b"a/\xff", b"\xc3"] { strs.push(t.to_vec()); }
    for x in &strs {
        for y in &strs {
            // model cases: std's verdict in both kinds
            let (px, py) = (Path::new(OsStr::from_bytes(x)), Path::new(OsStr::from_bytes(y)));
            w.push(format!("CmpCase KBytes {} {} {} {}", coq_bytes(x), coq_bytes(y), x == y, ordc(x.cmp(y))));
            w.push(format!("CmpCase KPath {} {} {} {}", coq_bytes(x), coq_bytes(y), px == py, ordc(px.cmp(py))));
            if strs.len() > 200 && (x.len() == 4 && y.len() == 4) && (x[0] != y[0]) { continue; }
            let mut cx = Ctx { sum: &mut sum, bk: "arc/rc" };
            pairs::<Arc, Rc>(&mut cx, x, y);
            if x.len() <= 2 && y.len() <= 2 || x.len() > 20 {
                let mut cx = Ctx { sum: &mut sum, bk: "rc/unique" }; pairs::<Rc, Unique>(&mut cx, x, y);
                let mut cx = Ctx { sum: &mut sum, bk: "unique/arc" }; pairs::<Unique, Arc>(&mut cx, x, y);
            }
        }
    }
    for text in ["aaaaaaaaaaaaaaaaaaaaaaaaaaaaaaaaaaaaaaaaaaaaaaaaaaaaaaaa", "ab/ab/./ab//ab/../ab/ab/ab/./ab//ab/../ab/ab/ab/./ab//ab", "a/a/a/a/a/a/a/a/a/a/a/a/a/a/a/a/a/a/a/a/a/a/a/a/a/a/a/a/"] {
        for heap in [false, true] {
            aliased::<Arc>(&mut sum, "arc", text, heap); aliased::<Rc>(&mut sum, "rc", text, heap); aliased::<Unique>(&mut sum, "unique", text, heap);
        }
    }
    w.flush();
    sum.files = w.files.clone();
    sum.nontrivial = w.total as u64;
    sum.samples.push(jstr("aliased views: all pairs of sub-ranges over 8 cut points of 3 texts x {borrowed, heap} x 3 backends x {HipByt, HipStr, HipOsStr, HipPath}: ==, partial_cmp, cmp, hash"));
    sum.samples.push(jstr(&format!("{} strings; per ordered pair: 50 (L,R) impl pairs in both operand orders (==, !=, partial_cmp), Ord, Hash, 7 Borrow lookups in HashMap and BTreeMap", strs.len())));
    sum.print();
}
