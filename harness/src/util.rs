//! Shared helpers: PRNG, Coq literal printing, sharded case files, JSON-ish summary.
use std::fmt::Write as _;
use std::fs;
use std::path::{Path, PathBuf};

/// splitmix64: every random choice of a run derives from one state seeded by VERIF_SEED.
#[derive(Clone)]
pub struct Rng(pub u64);
impl Rng {
    pub fn new(seed: u64) -> Self {
        Rng(seed ^ 0x9E37_79B9_7F4A_7C15)
    }
    pub fn next(&mut self) -> u64 {
        self.0 = self.0.wrapping_add(0x9E37_79B9_7F4A_7C15);
        let mut z = self.0;
        z = (z ^ (z >> 30)).wrapping_mul(0xBF58_476D_1CE4_E5B9);
        z = (z ^ (z >> 27)).wrapping_mul(0x94D0_49BB_1331_11EB);
        z ^ (z >> 31)
    }
    pub fn below(&mut self, n: usize) -> usize {
        if n == 0 { 0 } else { (self.next() % n as u64) as usize }
    }
    pub fn chance(&mut self, num: u64, den: u64) -> bool {
        self.next() % den < num
    }
    pub fn pick<'a, T>(&mut self, xs: &'a [T]) -> &'a T {
        &xs[self.below(xs.len())]
    }
}

pub fn coq_bytes(b: &[u8]) -> String {
    let mut s = String::with_capacity(b.len() * 4 + 2);
    s.push('[');
    for (i, x) in b.iter().enumerate() {
        if i > 0 { s.push(';'); }
        let _ = write!(s, "{}", x);
    }
    s.push(']');
    s
}

pub fn hex(b: &[u8]) -> String {
    if b.is_empty() { return "-".into(); }
    let mut s = String::new();
    for x in b { let _ = write!(s, "{:02x}", x); }
    s
}

/// Writes `Definition cases := [...]` files of at most `per_file` cases each.
pub struct CaseWriter {
    dir: PathBuf,
    stem: String,
    header: String,
    footer: String,
    per_file: usize,
    cur: Vec<String>,
    pub files: Vec<String>,
    pub total: usize,
}
impl CaseWriter {
    pub fn new(dir: &Path, stem: &str, header: &str, footer: &str, per_file: usize) -> Self {
        fs::create_dir_all(dir).unwrap();
        CaseWriter { dir: dir.into(), stem: stem.into(), header: header.into(), footer: footer.into(), per_file, cur: vec![], files: vec![], total: 0 }
    }
    pub fn push(&mut self, case: String) {
        self.cur.push(case);
        self.total += 1;
        if self.cur.len() >= self.per_file { self.flush(); }
    }
    pub fn flush(&mut self) {
        if self.cur.is_empty() { return; }
        let name = format!("{}_{}.v", self.stem, self.files.len());
        let mut s = String::new();
        s.push_str(&self.header);
        s.push_str("Definition cases := [\n");
        for (i, c) in self.cur.iter().enumerate() {
            s.push_str("  ");
            s.push_str(c);
            if i + 1 < self.cur.len() { s.push(';'); }
            s.push('\n');
        }
        s.push_str("].\n");
        s.push_str(&self.footer);
        fs::write(self.dir.join(&name), s).unwrap();
        self.files.push(name);
        self.cur.clear();
    }
}

/// Minimal JSON string escaping.
pub fn jstr(s: &str) -> String {
    let mut o = String::from("\"");
    for c in s.chars() {
        match c {
            '"' => o.push_str("\\\""),
            '\\' => o.push_str("\\\\"),
            '\n' => o.push_str("\\n"),
            c if (c as u32) < 0x20 => { let _ = write!(o, "\\u{:04x}", c as u32); }
            c => o.push(c),
        }
    }
    o.push('"');
    o
}

/// Summary printed on stdout as one JSON object (parsed by bin/check).
#[derive(Default)]
pub struct Summary {
    pub evaluations: u64,
    pub nontrivial: u64,
    pub violations: Vec<String>,     // each a JSON object (already encoded)
    pub samples: Vec<String>,        // JSON strings/objects
    pub distribution: Vec<(String, u64)>,
    pub files: Vec<String>,
    pub notes: Vec<String>,
}
impl Summary {
    pub fn count(&mut self, key: &str) {
        if let Some(e) = self.distribution.iter_mut().find(|e| e.0 == key) { e.1 += 1; } else { self.distribution.push((key.into(), 1)); }
    }
    pub fn sample(&mut self, s: String) {
        if self.samples.len() < 4000 { self.samples.push(s); }
    }
    pub fn violation(&mut self, v: String) {
        // at most 4 per class (the text before " bk=" of the "what" field), so that one class cannot crowd out another
        let class = v.split("\"what\":\"").nth(1).map(|r| r.split(" bk=").next().unwrap_or("").chars().take(80).collect::<String>()).unwrap_or_default();
        let n = self.violations.iter().filter(|o| o.split("\"what\":\"").nth(1).map_or(false, |r| r.starts_with(&class))).count();
        if n < 4 && self.violations.len() < 200 { self.violations.push(v); }
    }
    pub fn print(&self) {
        let mut o = String::from("{");
        let _ = write!(o, "\"evaluations\":{},\"distinct_nontrivial\":{},", self.evaluations, self.nontrivial);
        let _ = write!(o, "\"violations\":[{}],", self.violations.join(","));
        let step = (self.samples.len() / 12).max(1);
        let picked: Vec<String> = self.samples.iter().step_by(step).take(12).cloned().collect();
        let _ = write!(o, "\"samples\":[{}],", picked.join(","));
        let _ = write!(o, "\"distribution\":{{{}}},", self.distribution.iter().map(|(k, v)| format!("{}:{}", jstr(k), v)).collect::<Vec<_>>().join(","));
        let _ = write!(o, "\"files\":[{}],", self.files.iter().map(|f| jstr(f)).collect::<Vec<_>>().join(","));
        let _ = write!(o, "\"notes\":[{}]", self.notes.iter().map(|f| jstr(f)).collect::<Vec<_>>().join(","));
        o.push('}');
        println!("{}", o);
    }
}

pub fn profile() -> &'static str {
    if cfg!(debug_assertions) { "debug" } else { "release" }
}

/// Runs `f` catching panics, with the default panic message silenced.
pub fn quiet_catch<R>(f: impl FnOnce() -> R + std::panic::UnwindSafe) -> Result<R, String> {
    match std::panic::catch_unwind(f) {
        Ok(r) => Ok(r),
        Err(e) => Err(if let Some(s) = e.downcast_ref::<String>() { s.clone() } else if let Some(s) = e.downcast_ref::<&str>() { s.to_string() } else { "<panic>".into() }),
    }
}

pub fn silence_panics() {
    std::panic::set_hook(Box::new(|_| {}));
}

/// Where the run currently is (read back by bin/check when the process dies: a crash of the code under test is a finding).
pub fn breadcrumb(text: &str) {
    if let Ok(p) = std::env::var("VERIF_BREADCRUMB") { let _ = std::fs::write(p, text); }
}
