//! `vec` driver (C13 C14 C15): InlineVec<El, CAP> and ThinVec<El> under operation sequences, with identity-tracked
//! elements whose Clone/Drop (and the iterators/closures handed to the vectors) log every call and panic at a chosen
//! callback position.  Oracles evaluated on the real implementation after every step:
//!   * (no injected panic) contents and return values equal a `Vec` driven beside it (C13);
//!   * the live-identity registry never sees a drop of an unknown/already dropped identity, the allocator monitor stays
//!     clean (C14), also after an injected panic and while the vector keeps being used afterwards (C15).
//! Every step is also written as a Coq case step so that `coqc` replays it on the model (callback log compared verbatim).
use crate::alloc;
use crate::util::*;
use hipstr::vecs::thin::{Reserved, ThinVec};
use hipstr::vecs::InlineVec;
use std::cell::RefCell;
use std::collections::BTreeSet;
use std::ops::Bound;
use std::panic::AssertUnwindSafe;
use std::path::Path;

const SRC_BASE: u64 = 1_000_000;

#[derive(Clone, Debug, PartialEq)]
enum Ev { Clone(u64, u64), Drop(u64), Next(u64), Pred(u64, bool), Make(u64), Panic }
impl Ev {
    fn coq(&self) -> String {
        match self { Ev::Clone(a, b) => format!("EvClone {} {}", a, b), Ev::Drop(a) => format!("EvDrop {}", a), Ev::Next(a) => format!("EvNext {}", a),
            Ev::Pred(a, r) => format!("EvPred {} {}", a, r), Ev::Make(a) => format!("EvMake {}", a), Ev::Panic => "EvPanic".into() }
    }
}

#[derive(Default)]
struct Registry { live: BTreeSet<u64>, handed: BTreeSet<u64>, next: u64, cbs: u64, pan: Option<u64>, log: Vec<Ev>, errors: Vec<String>, quiet: bool, fired: bool }
thread_local! { static REG: RefCell<Registry> = RefCell::new(Registry::default()); }

fn reg<R>(f: impl FnOnce(&mut Registry) -> R) -> R { alloc::pause(|| REG.with(|r| f(&mut r.borrow_mut()))) }
/// one user callback: returns true when this one must panic
fn tick() -> bool { let unwinding = std::thread::panicking(); reg(|r| { let fire = r.pan == Some(r.cbs) && !unwinding; r.cbs += 1; if fire { r.pan = None; r.fired = true; } fire }) }
fn fresh(val: u64) -> El { reg(|r| { let id = r.next; r.next += 1; r.live.insert(id); El { id, val } }) }

/// 16-byte identity-tracked element
pub struct El { id: u64, val: u64 }
impl Clone for El {
    fn clone(&self) -> El {
        if tick() { reg(|r| r.log.push(Ev::Panic)); panic!("injected panic in clone"); }
        let n = fresh(self.val);
        reg(|r| r.log.push(Ev::Clone(self.id, n.id)));
        n
    }
}
impl Drop for El {
    fn drop(&mut self) {
        if reg(|r| r.quiet) { return; }
        let fire = tick();
        reg(|r| {
            if r.handed.contains(&self.id) { r.errors.push(format!("the vector dropped element {} although it had been handed back to the caller (it will be dropped twice)", self.id)); }
            if !r.live.remove(&self.id) { r.errors.push(format!("drop of an unknown or already dropped element (id {:#x}, val {:#x})", self.id, self.val)); }
            r.log.push(Ev::Drop(self.id));
            if fire { r.log.push(Ev::Panic); }
        });
        if fire && !std::thread::panicking() { panic!("injected panic in drop"); }
    }
}
struct It { vals: [u64; 12], n: usize, pos: usize, hint: usize, upper: Option<usize> }
/// the upper bound of the size hint is deliberately loose for some iterators (as for filter / flat_map): the vectors must not rely on it
fn mk_it(v: &[u64], hint: usize) -> It { let mut a = [0u64; 12]; a[..v.len()].copy_from_slice(v); let upper = match (v.len() + hint) % 4 { 0 => None, 1 => Some(v.len().max(hint)), 2 => Some(v.len().max(hint) + 9), _ => Some(hint) /* claims to be exact, may yield more: safe code can lie */ }; It { vals: a, n: v.len(), pos: 0, hint, upper } }
impl Iterator for It {
    type Item = El;
    fn next(&mut self) -> Option<El> {
        if self.pos >= self.n { return None; }
        if tick() { reg(|r| r.log.push(Ev::Panic)); panic!("injected panic in next"); }
        let e = fresh(self.vals[self.pos]);
        self.pos += 1;
        reg(|r| r.log.push(Ev::Next(e.id)));
        Some(e)
    }
    fn size_hint(&self) -> (usize, Option<usize>) { (self.hint, self.upper) }
}

#[derive(Clone, Debug)]
enum XOp {
    New, WithCap(usize), FromSlice(Vec<u64>), FromIter(Vec<u64>, usize),
    Push(usize, u64), TryPush(usize, u64), Pop(usize), PopIf(usize, bool), Insert(usize, usize, u64), TryInsert(usize, usize, u64), Remove(usize, usize), SwapRemove(usize, usize),
    Truncate(usize, usize), Clear(usize), Resize(usize, usize, u64), ResizeWith(usize, usize, u64), ExtendFromSlice(usize, Vec<u64>), ExtendFromWithin(usize, Bound<usize>, Bound<usize>),
    ExtendIter(usize, Vec<u64>, usize), Append(usize, usize), SplitOff(usize, usize), Drain(usize, Bound<usize>, Bound<usize>, usize, usize, bool),
    IntoIter(usize, usize, usize), CloneV(usize), Reserve(usize, usize), ReserveExact(usize, usize), ShrinkTo(usize, usize), ShrinkToFit(usize), DropV(usize),
}
fn cbd(b: Bound<usize>) -> String { match b { Bound::Included(n) => format!("(Incl {})", n), Bound::Excluded(n) => format!("(Excl {})", n), Bound::Unbounded => "Unb".into() } }
fn cl(v: &[u64]) -> String { format!("[{}]", v.iter().map(|x| x.to_string()).collect::<Vec<_>>().join(";")) }
fn nat(n: usize) -> String { format!("{}%nat", n) }
impl XOp {
    fn coq(&self) -> String {
        use XOp::*;
        match self {
            New => "XNew".into(), WithCap(c) => format!("XWithCap {}", nat(*c)), FromSlice(v) => format!("XFromSlice {}", cl(&v.iter().map(|x| x + SRC_BASE).collect::<Vec<_>>())),
            FromIter(v, h) => format!("XFromIter {} {}", cl(v), nat(*h)), Push(v, x) => format!("XPush {} {}", v, x), TryPush(v, x) => format!("XTryPush {} {}", v, x), Pop(v) => format!("XPop {}", v),
            PopIf(v, r) => format!("XPopIf {} {}", v, r), Insert(v, i, x) => format!("XInsert {} {} {}", v, nat(*i), x), TryInsert(v, i, x) => format!("XTryInsert {} {} {}", v, nat(*i), x),
            Remove(v, i) => format!("XRemove {} {}", v, nat(*i)), SwapRemove(v, i) => format!("XSwapRemove {} {}", v, nat(*i)), Truncate(v, n) => format!("XTruncate {} {}", v, nat(*n)), Clear(v) => format!("XClear {}", v),
            Resize(v, n, x) => format!("XResize {} {} {}", v, nat(*n), x), ResizeWith(v, n, x) => format!("XResizeWith {} {} {}", v, nat(*n), x),
            ExtendFromSlice(v, s) => format!("XExtendFromSlice {} {}", v, cl(&s.iter().map(|x| x + SRC_BASE).collect::<Vec<_>>())), ExtendFromWithin(v, s, e) => format!("XExtendFromWithin {} {} {}", v, cbd(*s), cbd(*e)),
            ExtendIter(v, s, h) => format!("XExtendIter {} {} {}", v, cl(s), nat(*h)), Append(v, o) => format!("XAppend {} {}", v, o), SplitOff(v, a) => format!("XSplitOff {} {}", v, nat(*a)),
            Drain(v, s, e, f, b, fg) => format!("XDrain {} {} {} {} {} {}", v, cbd(*s), cbd(*e), nat(*f), nat(*b), fg), IntoIter(v, f, b) => format!("XIntoIter {} {} {}", v, nat(*f), nat(*b)), CloneV(v) => format!("XCloneV {}", v),
            Reserve(v, n) => format!("XReserve {} {}", v, nat(*n)), ReserveExact(v, n) => format!("XReserveExact {} {}", v, nat(*n)), ShrinkTo(v, n) => format!("XShrinkTo {} {}", v, nat(*n)), ShrinkToFit(v) => format!("XShrinkToFit {}", v), DropV(v) => format!("XDropV {}", v),
        }
    }
}
#[derive(Clone, Debug, PartialEq)]
enum XOut { Unit, NewV(usize), None_, Item(u64), Items(Vec<u64>), Rejected(u64, bool), RangeErr, Panicked, Skip }
impl XOut {
    fn coq(&self) -> String {
        match self { XOut::Unit => "VUnit".into(), XOut::NewV(v) => format!("(VNewV {})", v), XOut::None_ => "VNone".into(), XOut::Item(i) => format!("(VItem {})", i), XOut::Items(v) => format!("(VItems {})", cl(v)),
            XOut::Rejected(i, f) => format!("(VRejected {} {})", i, f), XOut::RangeErr => "VRangeErr".into(), XOut::Panicked => "VPanicked".into(), XOut::Skip => "VSkip".into() }
    }
}

const CAP: usize = 7;
enum V { In(InlineVec<El, CAP>), Th(ThinVec<El, Reserved>) }
impl V {
    fn slice(&self) -> &[El] { match self { V::In(v) => v.as_slice(), V::Th(v) => v.as_slice() } }
    fn cap(&self) -> usize { match self { V::In(v) => v.capacity(), V::Th(v) => v.capacity() } }
}

struct Case { thin: bool, pool: Vec<Option<V>>, shadow: Vec<Option<Vec<u64>>>, handed: Vec<El>, srcs: Vec<std::mem::ManuallyDrop<El>>, viol: Vec<String>, injected: bool }

fn src_slice(vals: &[u64]) -> Vec<El> { vals.iter().map(|&v| El { id: SRC_BASE + v, val: v }).collect() }

impl Case {
    fn add(&mut self, v: V, sh: Vec<u64>) -> XOut { self.pool.push(Some(v)); self.shadow.push(Some(sh)); XOut::NewV(self.pool.len() - 1) }
    fn live(&self, i: usize) -> bool { i < self.pool.len() && self.pool[i].is_some() }
    fn inj(&self) -> bool { reg(|r| r.fired) }
    /// after a capacity (or injected) panic of an appending operation: the vector must hold its previous elements followed by a prefix of the appended items
    fn accept_prefix(&mut self, vi: usize, appended: &[u64]) {
        let actual: Vec<u64> = self.pool[vi].as_ref().unwrap().slice().iter().map(|e| e.val).collect();
        let old = self.shadow[vi].as_ref().unwrap().clone();
        let ok = actual.len() >= old.len() && actual[..old.len()] == old[..] && actual.len() - old.len() <= appended.len() && actual[old.len()..] == appended[..actual.len() - old.len()];
        if !ok { self.viol.push(format!("after a panic v{} holds {:?}: not its previous elements {:?} followed by a prefix of {:?}", vi, actual, old, appended)); }
        self.shadow[vi] = Some(actual);
    }

    /// the std range verdict for drain / extend_from_within
    fn std_range(s: Bound<usize>, e: Bound<usize>, len: usize) -> Option<(usize, usize)> {
        // what `Vec::drain` / `slice::range` accept (C08 checks this function's agreement with Vec on the boundary lattice)
        let a = match s { Bound::Included(a) => a, Bound::Excluded(a) => a.checked_add(1)?, Bound::Unbounded => 0 };
        let b = match e { Bound::Included(b) => b.checked_add(1)?, Bound::Excluded(b) => b, Bound::Unbounded => len };
        if a <= b && b <= len { Some((a, b)) } else { None }
    }

    fn exec(&mut self, op: &XOp) -> XOut {
        use XOp::*;
        let thin = self.thin;
        let tgt = match op {
            Push(v, ..) | TryPush(v, ..) | Pop(v) | PopIf(v, ..) | Insert(v, ..) | TryInsert(v, ..) | Remove(v, ..) | SwapRemove(v, ..) | Truncate(v, ..) | Clear(v) | Resize(v, ..) | ResizeWith(v, ..)
            | ExtendFromSlice(v, ..) | ExtendFromWithin(v, ..) | ExtendIter(v, ..) | Append(v, ..) | SplitOff(v, ..) | Drain(v, ..) | IntoIter(v, ..) | CloneV(v) | Reserve(v, ..) | ReserveExact(v, ..)
            | ShrinkTo(v, ..) | ShrinkToFit(v) | DropV(v) => Some(*v),
            _ => None,
        };
        if let Some(v) = tgt { if !self.live(v) { return XOut::Skip; } }
        // Every call into the code under test runs inside an allocator window and under catch_unwind.
        macro_rules! guarded { ($e:expr) => {{ let r = quiet_catch(AssertUnwindSafe(|| alloc::window(|| $e))); alloc::set_window(false); r }}; }
        match op {
            New => { let v = guarded!(if thin { V::Th(ThinVec::new()) } else { V::In(InlineVec::new()) }).unwrap(); self.add(v, vec![]) }
            WithCap(c) => { if !thin { return XOut::Skip; } let v = guarded!(V::Th(ThinVec::with_capacity(*c))).unwrap(); self.add(v, vec![]) }
            FromSlice(vals) => {
                let src = std::mem::ManuallyDrop::new(src_slice(vals));
                let r = guarded!(if thin { V::Th(ThinVec::from(&src[..])) } else { V::In(InlineVec::from(&src[..])) });
                match r { Ok(v) => self.add(v, vals.clone()), Err(_) => { if !self.inj() && (thin || vals.len() <= CAP) { self.viol.push("from(&[T]) panicked".into()); } XOut::Panicked } }
            }
            FromIter(vals, hint) => {
                let it = mk_it(vals, *hint);
                let r = guarded!(if thin { V::Th(it.collect()) } else { V::In(it.collect()) });
                match r { Ok(v) => self.add(v, vals.clone()), Err(_) => { if !self.inj() && (thin || (vals.len() <= CAP && *hint <= CAP)) { self.viol.push("from_iter panicked".into()); } XOut::Panicked } }
            }
            Push(vi, x) => {
                let e = fresh(*x);
                let v = self.pool[*vi].as_mut().unwrap();
                let r = guarded!(match v { V::In(v) => v.push(e), V::Th(v) => v.push(e) });
                match r { Ok(()) => { self.shadow[*vi].as_mut().unwrap().push(*x); XOut::Unit } Err(_) => { if thin && !self.inj() { self.viol.push("ThinVec::push panicked".into()); } XOut::Panicked } }
            }
            TryPush(vi, x) => {
                if thin { return XOut::Skip; }
                let e = fresh(*x); let id = e.id;
                let V::In(v) = self.pool[*vi].as_mut().unwrap() else { unreachable!() };
                match guarded!(v.try_push(e)).unwrap() {
                    Ok(()) => { self.shadow[*vi].as_mut().unwrap().push(*x); XOut::Unit }
                    Err(back) => { if back.id != id || back.val != *x { self.viol.push("try_push handed back another value".into()); } if self.shadow[*vi].as_ref().unwrap().len() < CAP { self.viol.push("try_push rejected below capacity".into()); } { reg(|r| { r.handed.insert(back.id); }); self.handed.push(back); } XOut::Rejected(id, true) }
                }
            }
            Pop(vi) => {
                let v = self.pool[*vi].as_mut().unwrap();
                let r = guarded!(match v { V::In(v) => v.pop(), V::Th(v) => v.pop() }).unwrap();
                let o = self.shadow[*vi].as_mut().unwrap().pop();
                if r.as_ref().map(|e| e.val) != o { self.viol.push(format!("pop returned {:?}, Vec {:?}", r.as_ref().map(|e| e.val), o)); }
                match r { Some(e) => { let id = e.id; reg(|r| { r.handed.insert(id); }); self.handed.push(e); XOut::Item(id) } None => XOut::None_ }
            }
            PopIf(vi, want) => {
                if thin { return XOut::Skip; }
                let V::In(v) = self.pool[*vi].as_mut().unwrap() else { unreachable!() };
                let r = guarded!(v.pop_if(|e| { if tick() { reg(|r| r.log.push(Ev::Panic)); panic!("injected panic in predicate"); } reg(|r| r.log.push(Ev::Pred(e.id, *want))); *want }));
                match r {
                    Ok(Some(e)) => { let o = self.shadow[*vi].as_mut().unwrap().pop(); if Some(e.val) != o { self.viol.push("pop_if returned another value".into()); } let id = e.id; reg(|r| { r.handed.insert(id); }); self.handed.push(e); XOut::Item(id) }
                    Ok(None) => XOut::None_,
                    Err(_) => XOut::Panicked,
                }
            }
            Insert(vi, i, x) => {
                let e = fresh(*x);
                let len = self.shadow[*vi].as_ref().unwrap().len();
                let v = self.pool[*vi].as_mut().unwrap();
                let r = guarded!(match v { V::In(v) => v.insert(*i, e), V::Th(v) => v.insert(*i, e) });
                let should_panic = *i > len || (!thin && len == CAP);
                match r {
                    Ok(()) => { if should_panic { self.viol.push("insert did not panic".into()); } else { self.shadow[*vi].as_mut().unwrap().insert(*i, *x); } XOut::Unit }
                    Err(_) => { if !should_panic && !self.inj() { self.viol.push("insert panicked".into()); } XOut::Panicked }
                }
            }
            TryInsert(vi, i, x) => {
                if thin { return XOut::Skip; }
                let e = fresh(*x); let id = e.id;
                let len = self.shadow[*vi].as_ref().unwrap().len();
                let V::In(v) = self.pool[*vi].as_mut().unwrap() else { unreachable!() };
                match guarded!(v.try_insert(*i, e).map_err(|er| { let full = er.message().contains("full"); (er, full) })).unwrap() {
                    Ok(()) => { if *i > len || len == CAP { self.viol.push("try_insert accepted".into()); } self.shadow[*vi].as_mut().unwrap().insert(*i, *x); XOut::Unit }
                    Err((er, full)) => {
                        let expect_full = !(*i > len);
                        if !(*i > len || len == CAP) || full != expect_full { self.viol.push(format!("try_insert rejected with the wrong reason (full={})", full)); }
                        // hand the value back: InsertError exposes it through its public field
                        let back: El = er.value;
                        if back.id != id { self.viol.push("try_insert handed back another value".into()); }
                        { reg(|r| { r.handed.insert(back.id); }); self.handed.push(back); }
                        XOut::Rejected(id, full)
                    }
                }
            }
            Remove(vi, i) | SwapRemove(vi, i) => {
                let swap = matches!(op, SwapRemove(..));
                let len = self.shadow[*vi].as_ref().unwrap().len();
                let v = self.pool[*vi].as_mut().unwrap();
                let r = guarded!(match (v, swap) { (V::In(v), false) => v.remove(*i), (V::In(v), true) => v.swap_remove(*i), (V::Th(v), false) => v.remove(*i), (V::Th(v), true) => v.swap_remove(*i) });
                match r {
                    Ok(e) => { if *i >= len { self.viol.push("remove out of bounds did not panic".into()); } else { let o = if swap { self.shadow[*vi].as_mut().unwrap().swap_remove(*i) } else { self.shadow[*vi].as_mut().unwrap().remove(*i) }; if o != e.val { self.viol.push("remove returned another value".into()); } } let id = e.id; reg(|r| { r.handed.insert(id); }); self.handed.push(e); XOut::Item(id) }
                    Err(_) => { if *i < len { self.viol.push("remove panicked in bounds".into()); } XOut::Panicked }
                }
            }
            Truncate(vi, n) => {
                let v = self.pool[*vi].as_mut().unwrap();
                let r = guarded!(match v { V::In(v) => v.truncate(*n), V::Th(v) => v.truncate(*n) });
                self.shadow[*vi].as_mut().unwrap().truncate(*n);
                if r.is_err() { if !self.inj() { self.viol.push("truncate panicked".into()); } XOut::Panicked } else { XOut::Unit }
            }
            Clear(vi) => {
                let v = self.pool[*vi].as_mut().unwrap();
                let r = guarded!(match v { V::In(v) => v.clear(), V::Th(v) => v.clear() });
                self.shadow[*vi].as_mut().unwrap().clear();
                if r.is_err() { if !self.inj() { self.viol.push("clear panicked".into()); } XOut::Panicked } else { XOut::Unit }
            }
            Resize(vi, n, x) => {
                let e = fresh(*x);
                let v = self.pool[*vi].as_mut().unwrap();
                let r = guarded!(match v { V::In(v) => v.resize(*n, e), V::Th(v) => v.resize(*n, e) });
                match r {
                    Ok(()) => { if !thin && *n > CAP { self.viol.push("resize beyond capacity did not panic".into()); } self.shadow[*vi].as_mut().unwrap().resize(*n, *x); XOut::Unit }
                    Err(_) => { if !self.inj() && (thin || *n <= CAP) { self.viol.push("resize panicked".into()); } XOut::Panicked }
                }
            }
            ResizeWith(vi, n, x) => {
                if thin { return XOut::Skip; }
                let V::In(v) = self.pool[*vi].as_mut().unwrap() else { unreachable!() };
                let r = guarded!(v.resize_with(*n, || { if tick() { reg(|r| r.log.push(Ev::Panic)); panic!("injected panic in closure"); } let e = fresh(*x); reg(|r| r.log.push(Ev::Make(e.id))); e }));
                match r {
                    Ok(()) => { if *n > CAP { self.viol.push("resize_with beyond capacity did not panic".into()); } self.shadow[*vi].as_mut().unwrap().resize(*n, *x); XOut::Unit }
                    Err(_) => { if !self.inj() && *n <= CAP { self.viol.push("resize_with panicked".into()); } XOut::Panicked }
                }
            }
            ExtendFromSlice(vi, vals) => {
                let src = std::mem::ManuallyDrop::new(src_slice(vals));
                let len = self.shadow[*vi].as_ref().unwrap().len();
                let v = self.pool[*vi].as_mut().unwrap();
                let r = guarded!(match v { V::In(v) => v.extend_from_slice(&src), V::Th(v) => v.extend_from_slice(&src) });
                match r {
                    Ok(()) => { if !thin && len + vals.len() > CAP { self.viol.push("extend_from_slice beyond capacity did not panic".into()); } self.shadow[*vi].as_mut().unwrap().extend_from_slice(vals); XOut::Unit }
                    Err(_) => { if !self.inj() && (thin || len + vals.len() <= CAP) { self.viol.push("extend_from_slice panicked".into()); } self.accept_prefix(*vi, vals); XOut::Panicked }
                }
            }
            ExtendFromWithin(vi, s, e) => {
                let len = self.shadow[*vi].as_ref().unwrap().len();
                let std_r = Self::std_range(*s, *e, len);
                let v = self.pool[*vi].as_mut().unwrap();
                let r = guarded!(match v { V::In(v) => v.extend_from_within((*s, *e)), V::Th(v) => v.extend_from_within((*s, *e)) });
                match (r, std_r) {
                    (Ok(()), Some((a, b))) => { if !thin && len + (b - a) > CAP { self.viol.push("extend_from_within beyond capacity did not panic".into()); } self.shadow[*vi].as_mut().unwrap().extend_from_within(a..b); XOut::Unit }
                    (Ok(()), None) => { self.viol.push("extend_from_within accepted a range Vec rejects".into()); XOut::Unit }
                    (Err(_), None) => XOut::RangeErr,
                    (Err(_), Some((a, b))) => { if !self.inj() && (thin || len + (b - a) <= CAP) { self.viol.push("extend_from_within rejected a range Vec accepts".into()); } let app: Vec<u64> = self.shadow[*vi].as_ref().unwrap()[a..b].to_vec(); self.accept_prefix(*vi, &app); XOut::Panicked }
                }
            }
            ExtendIter(vi, vals, hint) => {
                let it = mk_it(vals, *hint);
                let len = self.shadow[*vi].as_ref().unwrap().len();
                let v = self.pool[*vi].as_mut().unwrap();
                let r = guarded!(match v { V::In(v) => v.extend(it), V::Th(v) => v.extend(it) });
                match r {
                    Ok(()) => { self.shadow[*vi].as_mut().unwrap().extend_from_slice(vals); XOut::Unit }
                    Err(_) => { if !self.inj() && (thin || len + vals.len() <= CAP) { self.viol.push("extend panicked".into()); } self.accept_prefix(*vi, vals); XOut::Panicked }
                }
            }
            Append(vi, oi) => {
                if vi == oi || !self.live(*oi) { return XOut::Skip; }
                let (a, b) = if vi < oi { let (l, r) = self.pool.split_at_mut(*oi); (l[*vi].as_mut().unwrap(), r[0].as_mut().unwrap()) } else { let (l, r) = self.pool.split_at_mut(*vi); (r[0].as_mut().unwrap(), l[*oi].as_mut().unwrap()) };
                let r = guarded!(match (a, b) { (V::In(a), V::In(b)) => a.append(b), (V::Th(a), V::Th(b)) => a.append(b), _ => unreachable!() });
                let la = self.shadow[*vi].as_ref().unwrap().len(); let lb = self.shadow[*oi].as_ref().unwrap().len();
                match r {
                    Ok(()) => { if !thin && la + lb > CAP { self.viol.push("append beyond capacity did not panic".into()); } let mut o = std::mem::take(self.shadow[*oi].as_mut().unwrap()); self.shadow[*vi].as_mut().unwrap().append(&mut o); XOut::Unit }
                    Err(_) => { if thin || la + lb <= CAP { self.viol.push("append panicked".into()); } XOut::Panicked }
                }
            }
            SplitOff(vi, at) => {
                let len = self.shadow[*vi].as_ref().unwrap().len();
                let v = self.pool[*vi].as_mut().unwrap();
                let r = guarded!(match v { V::In(v) => V::In(v.split_off(*at)), V::Th(v) => V::Th(v.split_off(*at)) });
                match r {
                    Ok(n) => { if *at > len { self.viol.push("split_off out of bounds did not panic".into()); return XOut::Unit; } let o = self.shadow[*vi].as_mut().unwrap().split_off(*at); self.add(n, o) }
                    Err(_) => { if *at <= len { self.viol.push("split_off panicked".into()); } XOut::Panicked }
                }
            }
            Drain(vi, s, e, front, back, forget) => {
                let len = self.shadow[*vi].as_ref().unwrap().len();
                let std_r = Self::std_range(*s, *e, len);
                let v = self.pool[*vi].as_mut().unwrap();
                let mut got: Vec<El> = vec![];
                got.reserve(16);
                let gotp: *mut Vec<El> = &mut got;
                let r = guarded!({
                    let got = unsafe { &mut *gotp };
                    macro_rules! go { ($d:expr) => {{ let mut d = $d; for _ in 0..*front { if let Some(x) = d.next() { got.push(x); } } for _ in 0..*back { if let Some(x) = d.next_back() { got.push(x); } } if *forget { std::mem::forget(d); } }}; }
                    match v { V::In(v) => go!(v.drain((*s, *e))), V::Th(v) => go!(v.drain((*s, *e))) }
                });
                let ids: Vec<u64> = got.iter().map(|e| e.id).collect();
                let vals: Vec<u64> = got.iter().map(|e| e.val).collect();
                reg(|r| { for e in got.iter() { r.handed.insert(e.id); } });
                reg(|r| { for e in got.iter() { r.handed.insert(e.id); } });
                self.handed.extend(got);
                match (r, std_r) {
                    (Ok(()), Some((a, b))) => {
                        let sh = self.shadow[*vi].as_mut().unwrap();
                        let f = (*front).min(b - a); let bk = (*back).min(b - a - f);
                        let mut exp: Vec<u64> = sh[a..a + f].to_vec(); exp.extend(sh[b - bk..b].iter().rev());
                        if exp != vals { self.viol.push(format!("drain yielded {:?}, Vec {:?}", vals, exp)); }
                        if *forget { sh.truncate(a); } else { sh.drain(a..b); }
                        XOut::Items(ids)
                    }
                    (Ok(()), None) => { self.viol.push("drain accepted a range Vec rejects".into()); XOut::Items(ids) }
                    (Err(_), None) => XOut::RangeErr,
                    (Err(_), Some((a, _b))) => { if !self.inj() { self.viol.push("drain rejected a range Vec accepts".into()); } self.shadow[*vi].as_mut().unwrap().truncate(a); XOut::Panicked }
                }
            }
            IntoIter(vi, front, back) => {
                if thin { return XOut::Skip; }
                let Some(V::In(v)) = self.pool[*vi].take() else { unreachable!() };
                let sh = self.shadow[*vi].take().unwrap();
                let mut got: Vec<El> = Vec::with_capacity(16);
                let gotp: *mut Vec<El> = &mut got;
                let r = guarded!({ let got = unsafe { &mut *gotp }; let mut it = v.into_iter(); for _ in 0..*front { if let Some(x) = it.next() { got.push(x); } } for _ in 0..*back { if let Some(x) = it.next_back() { got.push(x); } } });
                let ids: Vec<u64> = got.iter().map(|e| e.id).collect();
                let vals: Vec<u64> = got.iter().map(|e| e.val).collect();
                let f = (*front).min(sh.len()); let bk = (*back).min(sh.len() - f);
                let mut exp: Vec<u64> = sh[..f].to_vec(); exp.extend(sh[sh.len() - bk..].iter().rev());
                if exp != vals { self.viol.push(format!("into_iter yielded {:?}, Vec {:?}", vals, exp)); }
                reg(|r| { for e in got.iter() { r.handed.insert(e.id); } });
                reg(|r| { for e in got.iter() { r.handed.insert(e.id); } });
                self.handed.extend(got);
                if r.is_err() { XOut::Panicked } else { XOut::Items(ids) }
            }
            CloneV(vi) => {
                if thin { return XOut::Skip; }
                let Some(V::In(v)) = self.pool[*vi].as_ref() else { unreachable!() };
                let r = guarded!(V::In(v.clone()));
                match r { Ok(n) => { let sh = self.shadow[*vi].clone().unwrap(); self.add(n, sh) } Err(_) => { if !self.inj() { self.viol.push("clone panicked".into()); } XOut::Panicked } }
            }
            Reserve(vi, n) | ReserveExact(vi, n) | ShrinkTo(vi, n) => {
                if !thin { return XOut::Skip; }
                let Some(V::Th(v)) = self.pool[*vi].as_mut() else { unreachable!() };
                guarded!(match op { Reserve(..) => v.reserve(*n), ReserveExact(..) => v.reserve_exact(*n), _ => v.shrink_to(*n) }).unwrap();
                XOut::Unit
            }
            ShrinkToFit(vi) => {
                if !thin { return XOut::Skip; }
                let Some(V::Th(v)) = self.pool[*vi].as_mut() else { unreachable!() };
                guarded!(v.shrink_to_fit()).unwrap();
                XOut::Unit
            }
            DropV(vi) => {
                let v = self.pool[*vi].take();
                self.shadow[*vi] = None;
                let r = guarded!(drop(v));
                if r.is_err() { XOut::Panicked } else { XOut::Unit }
            }
        }
    }

    fn observe(&mut self) -> (String, String) {
        let mut pool = String::from("[");
        let mut first = true;
        let (live, handed_ids) = reg(|r| (r.live.clone(), r.handed.clone()));
        // an element handed back to the caller is the caller's: the vector must not have dropped it as well
        let dead_handed: Vec<u64> = self.handed.iter().filter(|e| !live.contains(&e.id)).map(|e| e.id).collect();
        if !dead_handed.is_empty() { self.viol.push(format!("elements {:?} were handed back to the caller AND dropped by the vector (dropped twice)", dead_handed)); }
        for (i, v) in self.pool.iter().enumerate() {
            let Some(v) = v else { continue };
            let sl = v.slice();
            let ids: Vec<u64> = sl.iter().map(|e| e.id).collect();
            let vals: Vec<u64> = sl.iter().map(|e| e.val).collect();
            // C14/C15: the length covers only initialised, live, distinct elements
            for e in sl { if !live.contains(&e.id) { self.viol.push(format!("v{} holds a dead or garbage element (id {:#x})", i, e.id)); } }
            for e in sl { if handed_ids.contains(&e.id) { self.viol.push(format!("v{} still holds element {} that was already handed back to the caller (it is owned twice)", i, e.id)); } }
            let mut d = ids.clone(); d.sort(); d.dedup(); if d.len() != ids.len() { self.viol.push(format!("v{} holds an element twice", i)); }
            if sl.len() > v.cap() { self.viol.push(format!("v{} len {} > capacity {}", i, sl.len(), v.cap())); }
            if !self.inj() { if Some(&vals) != self.shadow[i].as_ref() { self.viol.push(format!("v{} holds {:?}, Vec holds {:?}", i, vals, self.shadow[i])); } }
            else if let Some(sh) = self.shadow[i].as_mut() { *sh = vals.clone(); }    // after an injected panic the Vec model is re-synchronised (only leaks are permitted)
            if !first { pool.push_str("; "); }
            first = false;
            pool.push_str(&format!("({}, {}, {}, {}, {})", i, sl.len(), v.cap(), cl(&ids), cl(&vals)));
        }
        pool.push(']');
        (pool, cl(&live.iter().cloned().collect::<Vec<_>>()))
    }
}

fn gen_xop(rng: &mut Rng, c: &Case) -> XOp {
    let live: Vec<usize> = (0..c.pool.len()).filter(|&i| c.pool[i].is_some()).collect();
    let thin = c.thin;
    let vals = |rng: &mut Rng, n: usize| -> Vec<u64> { (0..n).map(|_| rng.below(50) as u64).collect() };
    if live.is_empty() || (live.len() < 3 && rng.chance(1, 6)) {
        return match rng.below(5) {
            0 => XOp::New,
            1 => if thin { XOp::WithCap(*rng.pick(&[0, 1, 2, 3, 5, 9])) } else { XOp::New },
            2 => { let n = *rng.pick(&[0, 1, 2, 3, 7, 8]); XOp::FromSlice(vals(rng, n)) }
            _ => { let n = *rng.pick(&[0, 1, 3, 7, 8]); let h = *rng.pick(&[0, 0, 1, n, n + 2]); XOp::FromIter(vals(rng, n), h) }
        };
    }
    let v = *rng.pick(&live);
    let len = c.shadow[v].as_ref().map_or(0, |s| s.len());
    let idx = |rng: &mut Rng| -> usize { match rng.below(6) { 0 => 0, 1 => len, 2 => len + 1, 3 => len.saturating_sub(1), _ => rng.below(len + 1) } };
    let bound = |rng: &mut Rng| -> Bound<usize> { let x = match rng.below(8) { 0 => usize::MAX, 1 => len + 1, _ => rng.below(len + 1) }; match rng.below(4) { 0 => Bound::Unbounded, 1 => Bound::Included(x), _ => Bound::Excluded(x) } };
    let x = rng.below(50) as u64;
    match rng.below(36) {
        0..=5 => XOp::Push(v, x),
        6 => XOp::TryPush(v, x),
        7..=8 => XOp::Pop(v),
        9 => XOp::PopIf(v, rng.chance(1, 2)),
        10..=11 => XOp::Insert(v, idx(rng), x),
        12 => XOp::TryInsert(v, idx(rng), x),
        13 => XOp::Remove(v, idx(rng)),
        14 => XOp::SwapRemove(v, idx(rng)),
        15 => XOp::Truncate(v, idx(rng)),
        16 => XOp::Clear(v),
        17..=18 => XOp::Resize(v, *rng.pick(&[0, 1, len, len + 1, len + 3, 7, 8]), x),
        19 => XOp::ResizeWith(v, *rng.pick(&[0, len, len + 2, 7, 8]), x),
        20..=21 => { let n = *rng.pick(&[0, 1, 2, 4]); XOp::ExtendFromSlice(v, vals(rng, n)) }
        22..=23 => XOp::ExtendFromWithin(v, bound(rng), bound(rng)),
        24 => { let n = *rng.pick(&[0, 1, 3]); let h = *rng.pick(&[0, n, n + 1]); XOp::ExtendIter(v, vals(rng, n), h) }
        25 => XOp::Append(v, *rng.pick(&live)),
        26 => XOp::SplitOff(v, idx(rng)),
        27..=29 => XOp::Drain(v, bound(rng), bound(rng), rng.below(3), rng.below(3), rng.chance(1, 8)),
        30 => XOp::IntoIter(v, rng.below(3), rng.below(3)),
        31 => XOp::CloneV(v),
        32 => XOp::Reserve(v, *rng.pick(&[0, 1, 5, 20])),
        33 => if rng.chance(1, 2) { XOp::ReserveExact(v, *rng.pick(&[0, 1, 5])) } else { XOp::ShrinkTo(v, *rng.pick(&[0, 1, len, 10])) },
        34 => XOp::ShrinkToFit(v),
        _ => XOp::DropV(v),
    }
}

fn run_case(thin: bool, ops: &[XOp], gen: Option<(&mut Rng, usize)>, pan: Option<u64>, sum: &mut Summary, w: &mut CaseWriter, desc: &str) -> u64 {
    breadcrumb(&format!("vec {} kind={} pan={:?} fixed-ops={:?}", desc, if thin { "thin" } else { "inline7" }, pan, ops.iter().map(|o| o.coq()).collect::<Vec<_>>()));
    reg(|r| { *r = Registry::default(); r.pan = pan; });
    alloc::reset_window_counters();
    let base = alloc::snap();
    let mut c = Case { thin, pool: vec![], shadow: vec![], handed: Vec::with_capacity(256), srcs: vec![], viol: vec![], injected: false };
    let _ = c.injected;
    let mut steps: Vec<String> = vec![];
    let mut trace: Vec<String> = vec![];
    let mut gen = gen;
    let mut k = 0usize;
    let mut log_pos = 0usize;
    loop {
        let op = if k < ops.len() { ops[k].clone() } else if let Some((rng, n)) = gen.as_mut() { if k < ops.len() + *n { gen_xop(rng, &c) } else { match (0..c.pool.len()).find(|&i| c.pool[i].is_some()) { Some(i) => XOp::DropV(i), None => break } } } else { match (0..c.pool.len()).find(|&i| c.pool[i].is_some()) { Some(i) => XOp::DropV(i), None => break } };
        k += 1;
        let prev = alloc::snap();
        let err_before = prev.errors;
        trace.push(format!("{} -> ?", op.coq()));
        breadcrumb(&format!("vec {} kind={} pan={:?}: {}", desc, if thin { "thin" } else { "inline7" }, pan, trace.join(" ; ")));
        trace.pop();
        let out = c.exec(&op);
        alloc::set_window(false);
        if reg(|r| r.pan.is_none()) && pan.is_some() { c.injected = true; }
        let s = alloc::snap();
        if s.errors != err_before { c.viol.push(format!("allocator monitor: {}", alloc::error_detail())); }
        let (pool, live) = c.observe();
        let (errs, evs, cbs) = reg(|r| (std::mem::take(&mut r.errors), r.log[log_pos..].to_vec(), r.cbs));
        log_pos += evs.len();
        for e in errs { c.viol.push(e); }
        sum.evaluations += 1;
        sum.count(op.coq().split(' ').next().unwrap());
        trace.push(format!("{} -> {}", op.coq(), out.coq()));
        steps.push(format!("XStep ({}) {} {} {} [{}] {} {} {} {} {}", op.coq(), out.coq(), pool, live, evs.iter().map(|e| e.coq()).collect::<Vec<_>>().join("; "), cbs, s.allocs - prev.allocs, s.frees - prev.frees, s.reallocs - prev.reallocs, s.live - base.live));
        if !c.viol.is_empty() { break; }
    }
    // C14: at the end every identity created is either handed back or dropped (leaks are permitted only after a panic or a forgotten drain)
    let cbs_total = reg(|r| r.cbs);
    if !c.viol.is_empty() {
        sum.violation(format!("{{\"what\":{},\"observed\":{},\"ops\":{}}}", jstr(&format!("vec {} kind={} pan={:?} prof={}", desc, if thin { "thin" } else { "inline7" }, pan, profile())), jstr(&c.viol.join(" | ")), jstr(&trace.join(" ; "))));
    }
    w.push(format!("XCase {} {} [\n    {}]", if thin { "KThin".to_string() } else { format!("(KInline {}%nat)", CAP) }, match pan { Some(p) => format!("(Some {})", p), None => "None".into() }, steps.join(";\n    ")));
    sum.nontrivial += 1;
    sum.sample(jstr(&format!("{} kind={} pan={:?}: {}", desc, if thin { "thin" } else { "inline7" }, pan, trace.join(" ; "))));
    reg(|r| r.quiet = true);
    drop(c);
    reg(|r| r.quiet = false);
    cbs_total
}

fn corpus() -> Vec<Vec<XOp>> {
    use Bound::*;
    vec![
        vec![XOp::New, XOp::Push(0, 1), XOp::Push(0, 2), XOp::Resize(0, 5, 9), XOp::Truncate(0, 1), XOp::DropV(0)],
        vec![XOp::FromSlice(vec![1, 2, 3, 4, 5, 6, 7, 8]), XOp::FromSlice(vec![1, 2, 3]), XOp::ExtendFromWithin(1, Unbounded, Unbounded), XOp::ExtendFromWithin(1, Included(1), Excluded(3)), XOp::ExtendFromWithin(1, Unbounded, Unbounded)],
        vec![XOp::FromIter(vec![1, 2, 3, 4], 0), XOp::Drain(0, Included(1), Excluded(3), 1, 0, false), XOp::Drain(0, Unbounded, Unbounded, 0, 1, true), XOp::Push(0, 5)],
        vec![XOp::FromSlice(vec![1, 2, 3, 4, 5]), XOp::SplitOff(0, 2), XOp::Append(0, 1), XOp::IntoIter(0, 1, 1), XOp::CloneV(1)],
        vec![XOp::WithCap(2), XOp::Push(0, 1), XOp::Push(0, 2), XOp::ExtendFromWithin(0, Unbounded, Unbounded), XOp::ShrinkToFit(0), XOp::Reserve(0, 1), XOp::ShrinkTo(0, 0)],
        vec![XOp::New, XOp::Insert(0, 0, 1), XOp::Insert(0, 0, 2), XOp::Insert(0, 1, 3), XOp::Insert(0, 5, 4), XOp::Remove(0, 1), XOp::SwapRemove(0, 0), XOp::Remove(0, 7)],
    ]
}

/// C14 extra (oracle only, not modelled): zero-sized and over-aligned element types, heap-owning elements, and a droppable
/// ThinVec prefix, through a fixed battery of operations against `Vec`, under the allocator monitor.
fn extra_types(sum: &mut Summary) {
    breadcrumb("vec extra-types battery (zero-sized / align(64) / Box / Vec elements, droppable ThinVec prefix)");
    use std::sync::atomic::{AtomicUsize, Ordering};
    static NEW: AtomicUsize = AtomicUsize::new(0);
    static DROPPED: AtomicUsize = AtomicUsize::new(0);
    #[derive(Clone, Debug, PartialEq)] struct Zst;
    #[derive(Clone, Debug, PartialEq)] #[repr(align(64))] struct Big(u8);
    struct Pfx(Box<u32>);
    impl Default for Pfx { fn default() -> Self { NEW.fetch_add(1, Ordering::SeqCst); Pfx(Box::new(7)) } }
    impl Drop for Pfx { fn drop(&mut self) { if *self.0 != 7 { DROPPED.fetch_add(1000, Ordering::SeqCst); } DROPPED.fetch_add(1, Ordering::SeqCst); } }
    macro_rules! battery { ($mk:expr, $v:expr, $name:expr) => {{
        let before = alloc::snap().errors;
        let r = quiet_catch(AssertUnwindSafe(|| {
            let mut t: ThinVec<_, Reserved> = ThinVec::new();
            let mut o = Vec::new();
            for i in 0..40u8 { t.push($mk(i)); o.push($mk(i)); }
            t.insert(3, $mk(99)); o.insert(3, $mk(99));
            let a = t.remove(0); let b = o.remove(0); assert!(a == b);
            let a = t.swap_remove(5); let b = o.swap_remove(5); assert!(a == b);
            t.extend_from_within(2..9); o.extend_from_within(2..9);
            let d1: Vec<_> = t.drain(4..10).collect(); let d2: Vec<_> = o.drain(4..10).collect(); assert!(d1 == d2);
            let s1 = t.split_off(7); let s2 = o.split_off(7); assert!(s1.as_slice() == &s2[..]);
            t.truncate(3); o.truncate(3); t.resize(6, $mk(1)); o.resize(6, $mk(1)); t.shrink_to_fit(); t.reserve(100);
            assert!(t.as_slice() == &o[..]);
            let mut iv: InlineVec<_, 9> = InlineVec::new();
            for i in 0..9u8 { iv.push($mk(i)); }
            let c = iv.clone(); assert!(c.as_slice() == iv.as_slice());
            let back: Vec<_> = iv.into_iter().rev().collect(); assert!(back.len() == 9);
            let tv: ThinVec<_, Reserved> = ThinVec::from(c); assert!(tv.len() == 9);
        }));
        sum.evaluations += 1;
        if let Err(m) = r { sum.violation(format!("{{\"what\":{},\"observed\":{},\"expected\":\"same as Vec\"}}", jstr(&format!("vec extra-types battery {}", $name)), jstr(&m))); }
        if alloc::snap().errors != before { sum.violation(format!("{{\"what\":{},\"observed\":{},\"expected\":\"clean allocator\"}}", jstr(&format!("vec extra-types battery {}", $name)), jstr(&alloc::error_detail()))); }
    }}; }
    battery!(|_i: u8| Zst, 0, "zero-sized");
    battery!(|i: u8| Big(i), 0, "align(64)");
    battery!(|i: u8| Box::new(i as u64), 0, "Box<u64>");
    battery!(|i: u8| vec![i; (i % 5) as usize], 0, "Vec<u8>");
    // zero-sized elements WITH a destructor: every one created is dropped exactly once, also through drains dropped early
    {
        static ZNEW: AtomicUsize = AtomicUsize::new(0);
        static ZDROP: AtomicUsize = AtomicUsize::new(0);
        struct DropZst;
        impl DropZst { fn new() -> Self { ZNEW.fetch_add(1, Ordering::SeqCst); DropZst } }
        impl Drop for DropZst { fn drop(&mut self) { ZDROP.fetch_add(1, Ordering::SeqCst); } }
        let r = quiet_catch(AssertUnwindSafe(|| {
            let mut t: ThinVec<DropZst, Reserved> = ThinVec::new(); for _ in 0..7 { t.push(DropZst::new()); }
            { let mut d = t.drain(1..5); let _one = d.next(); let _two = d.next_back(); }      // two taken, two dropped by the iterator, tail kept
            assert_eq!(t.len(), 3);
            drop(t.drain(..2)); assert_eq!(t.len(), 1);
            t.push(DropZst::new()); t.truncate(1); let _ = t.pop(); assert!(t.is_empty());
            let mut iv: InlineVec<DropZst, 8> = InlineVec::new(); for _ in 0..8 { iv.push(DropZst::new()); }
            { let mut d = iv.drain(2..7); let _ = d.next(); }
            assert_eq!(iv.len(), 3);
            drop(iv.drain(..)); assert!(iv.is_empty());
            for _ in 0..4 { iv.push(DropZst::new()); }
            let mut it = iv.into_iter(); let _ = it.next(); drop(it);
        }));
        sum.evaluations += 1;
        let (n, d) = (ZNEW.load(Ordering::SeqCst), ZDROP.load(Ordering::SeqCst));
        if r.is_err() || n != d { sum.violation(format!("{{\"what\":\"vec extra-types battery zero-sized elements with a destructor (drains dropped before being consumed)\",\"observed\":{},\"expected\":\"created == dropped\"}}", jstr(&format!("created {} dropped {} {:?}", n, d, r.err())))); }
    }
    {
        let before = alloc::snap().errors;
        let r = quiet_catch(AssertUnwindSafe(|| { let mut check = |name: &str, ok: bool, detail: String| { if !ok { panic!("{}: {}", name, detail); } }; large_collects(&mut check); }));
        sum.evaluations += 3;
        if r.is_err() || alloc::snap().errors != before { sum.violation(format!("{{\"what\":\"vec extra-types battery: large collects\",\"observed\":{},\"expected\":\"same as Vec, clean allocator\"}}", jstr(&format!("{:?} / allocator monitor: {}", r.err(), alloc::error_detail())))); }
    }
    // droppable prefix: written once at construction, dropped once with the vector, never dropped uninitialised
    let before = alloc::snap().errors;
    { let mut v: ThinVec<u32, Pfx> = ThinVec::new(); for i in 0..100 { v.push(i); } assert_eq!(*v.prefix().0, 7); let w = v.split_off(50); assert_eq!(*w.prefix().0, 7); }
    sum.evaluations += 1;
    let (n, d) = (NEW.load(Ordering::SeqCst), DROPPED.load(Ordering::SeqCst));
    if n != d || alloc::snap().errors != before { sum.violation(format!("{{\"what\":\"vec ThinVec droppable prefix\",\"observed\":{},\"expected\":\"created == dropped, intact\"}}", jstr(&format!("created {} dropped {} allocator {}", n, d, alloc::error_detail())))); }
}

/// collecting many elements from an honest iterator with an exact hint (buffers beyond any internal preallocation cap); the
/// allocator monitor's red zones see a write past the block
fn large_collects(check: &mut dyn FnMut(&str, bool, String)) {
    { let t: ThinVec<u64, Reserved> = (0..9000u64).collect(); check("ThinVec collect of 9000 u64", t.len() == 9000 && t.as_slice().iter().copied().eq(0..9000u64), format!("len {}", t.len())); }
    { let t: ThinVec<u8, Reserved> = (0..70_000u32).map(|x| x as u8).collect(); check("ThinVec collect of 70000 u8", t.len() == 70_000 && t.as_slice()[69_999] == (69_999u32 as u8), format!("len {}", t.len())); }
    { let t: ThinVec<String, Reserved> = (0..3000).map(|i| i.to_string()).collect(); check("ThinVec collect of 3000 String", t.len() == 3000 && t.as_slice()[2999] == "2999", format!("len {}", t.len())); }
}

/// The less travelled parts of the vector API against Vec (content, order, panics), with reference-counted elements so that a
/// lost or doubled drop shows as a wrong strong count (or as an allocator error): from_array, extend_from_array, const_append,
/// Extend / FromIterator, Clone, Debug / Hash / comparison impls, IntoIter as an ExactSize + DoubleEnded iterator, the `Copy`
/// twins, ThinVec try_drain / try_extend_from_within / append from an InlineVec / spare_capacity_mut.
fn api_battery(sum: &mut Summary) {
    use std::collections::hash_map::DefaultHasher;
    use std::hash::{Hash, Hasher};
    use std::rc::Rc;
    breadcrumb("vec API battery (from_array / const_append / Extend / trait impls / Copy twins / try_ forms)");
    let before = alloc::snap().errors;
    let masters: Vec<Rc<u32>> = (0..16).map(Rc::new).collect();
    let m = |i: usize| masters[i].clone();
    let hh = |t: &dyn Fn(&mut DefaultHasher)| { let mut s = DefaultHasher::new(); t(&mut s); s.finish() };
    let mut check = |name: &str, ok: bool, detail: String| { sum.evaluations += 1; if !ok { sum.violation(format!("{{\"what\":{},\"observed\":{},\"expected\":\"same as Vec\"}}", jstr(&format!("vec API battery: {}", name)), jstr(&detail))); } };
    let r = quiet_catch(AssertUnwindSafe(|| {
        let mut iv: InlineVec<Rc<u32>, 8> = InlineVec::from_array([m(0), m(1), m(2)]);
        let mut v: Vec<Rc<u32>> = vec![m(0), m(1), m(2)];
        check("from_array", iv.as_slice() == &v[..], format!("{:?}", iv.as_slice()));
        iv.extend_from_array([m(3), m(4)]); v.extend([m(3), m(4)]);
        check("extend_from_array", iv.as_slice() == &v[..], format!("{:?}", iv.as_slice()));
        let over = quiet_catch(AssertUnwindSafe(|| { let mut c = iv.clone(); c.extend_from_array([m(5), m(6), m(7), m(8)]); }));
        check("extend_from_array beyond the capacity panics", over.is_err(), "accepted 9 elements in 8 slots".into());
        let mut small: InlineVec<Rc<u32>, 4> = InlineVec::from_array([m(5), m(6)]);
        iv.const_append(&mut small); v.extend([m(5), m(6)]);
        check("const_append", iv.as_slice() == &v[..] && small.is_empty(), format!("{:?} / other {:?}", iv.as_slice(), small.as_slice()));
        let mut small: InlineVec<Rc<u32>, 4> = InlineVec::from_array([m(7), m(8)]);
        let over = quiet_catch(AssertUnwindSafe(|| iv.const_append(&mut small)));
        check("const_append beyond the capacity panics and moves nothing", over.is_err() && iv.as_slice() == &v[..] && small.len() == 2, format!("{:?} / other {:?}", iv.as_slice(), small.as_slice()));
        drop(small);
        check("Debug", format!("{:?}", iv) == format!("{:?}", v), format!("{:?}", iv));
        check("Hash", hh(&|s| iv.hash(s)) == hh(&|s| v[..].hash(s)) || hh(&|s| iv.hash(s)) == hh(&|s| v.hash(s)), "hash differs from the slice's".into());
        let c = iv.clone();
        check("Clone", c.as_slice() == &v[..] && Rc::strong_count(&masters[0]) == 4, format!("{:?} strong={}", c.as_slice(), Rc::strong_count(&masters[0])));
        check("PartialEq / Ord between vectors", c == iv && c.cmp(&iv) == std::cmp::Ordering::Equal && c.partial_cmp(&iv) == Some(std::cmp::Ordering::Equal), "a clone is not equal to its source".into());
        let mut c2 = c.clone(); let _ = c2.pop();
        check("Ord is the slice order", c2.cmp(&iv) == c2.as_slice().cmp(iv.as_slice()) && (c2 == iv) == (c2.as_slice() == iv.as_slice()), "differs".into());
        drop(c2);
        // IntoIter: exact size, both ends, early drop
        let mut it = c.into_iter(); let mut ot = v.clone().into_iter();
        let mut ok = it.len() == ot.len() && it.size_hint() == ot.size_hint();
        ok &= it.next() == ot.next() && it.next_back() == ot.next_back() && it.len() == ot.len();
        ok &= it.nth(1) == ot.nth(1) && it.len() == ot.len();
        drop(it); drop(ot);
        check("IntoIter (len, size_hint, next, next_back, nth, early drop)", ok, "differs from vec::IntoIter".into());
        // Extend / FromIterator
        let mut e: InlineVec<Rc<u32>, 8> = InlineVec::new(); e.extend(v.iter().take(3).cloned()); e.extend(std::iter::empty());
        check("Extend", e.as_slice() == &v[..3], format!("{:?}", e.as_slice()));
        let f: InlineVec<Rc<u32>, 8> = v.iter().cloned().collect();
        check("FromIterator", f.as_slice() == &v[..], format!("{:?}", f.as_slice()));
        let t: ThinVec<Rc<u32>, Reserved> = v.iter().cloned().collect();
        check("ThinVec FromIterator", t.as_slice() == &v[..], format!("{:?}", t.as_slice()));
        // ThinVec: append from an InlineVec, try_ forms, spare capacity
        let mut t = t; let mut f = f;
        t.append(&mut f); let mut v2 = v.clone(); v2.extend(v.iter().cloned());
        check("ThinVec::append(&mut InlineVec)", t.as_slice() == &v2[..] && f.is_empty(), format!("{:?}", t.as_slice()));
        check("spare_capacity_mut", { let (l, c) = (t.len(), t.capacity()); t.spare_capacity_mut().len() == c - l }, "length differs from capacity - len".into());
        for (s, e2) in [(0usize, 2usize), (3, 3), (5, 4), (0, 99), (14, 14), (15, 15)] {
            let mut tc: ThinVec<Rc<u32>, Reserved> = t.as_slice().iter().cloned().collect(); let mut vc = v2.clone();
            let exp = quiet_catch(AssertUnwindSafe(|| vc.drain(s..e2).collect::<Vec<_>>())).ok();
            let got = tc.try_drain(s..e2).ok().map(|d| d.collect::<Vec<_>>());
            check(&format!("ThinVec::try_drain({}..{})", s, e2), got == exp && (exp.is_none() || tc.as_slice() == &vc[..]) && (exp.is_some() || tc.as_slice() == &v2[..]), format!("{:?} -> {:?}", got, tc.as_slice()));
            let mut tc: ThinVec<Rc<u32>, Reserved> = t.as_slice().iter().cloned().collect(); let mut vc = v2.clone();
            let exp = quiet_catch(AssertUnwindSafe(|| vc.extend_from_within(s..e2))).is_ok();
            let got = tc.try_extend_from_within(s..e2).is_ok();
            check(&format!("ThinVec::try_extend_from_within({}..{})", s, e2), got == exp && tc.as_slice() == &vc[..], format!("ok={} -> {:?}", got, tc.as_slice()));
        }
        drop(t); drop(f); drop(e); drop(iv); drop(v); drop(v2);
        // Drain as an iterator, in lock-step with Vec's drain: every sequence of three calls among next / next_back / nth / len
        #[derive(Clone, Copy, Debug)] enum C { Next, NextBack, Nth(usize), Len }
        let calls = [C::Next, C::NextBack, C::Nth(0), C::Nth(1), C::Nth(9), C::Len];
        for a in calls { for b in calls { for c in calls { for kind in 0..2 {
            let mut sv: Vec<Rc<u32>> = (0..6).map(m).collect();
            let mut log_s: Vec<Option<Option<u32>>> = vec![]; let mut log_h: Vec<Option<Option<u32>>> = vec![];
            let mut len_s = vec![]; let mut len_h = vec![];
            { let mut d = sv.drain(1..5); for x in [a, b, c] { match x { C::Next => log_s.push(Some(d.next().map(|r| *r))), C::NextBack => log_s.push(Some(d.next_back().map(|r| *r))), C::Nth(k) => log_s.push(Some(d.nth(k).map(|r| *r))), C::Len => len_s.push(d.len()) } } }
            let after_h: Vec<u32>;
            if kind == 0 {
                let mut hv: ThinVec<Rc<u32>, Reserved> = (0..6).map(m).collect();
                { let mut d = hv.drain(1..5); for x in [a, b, c] { match x { C::Next => log_h.push(Some(d.next().map(|r| *r))), C::NextBack => log_h.push(Some(d.next_back().map(|r| *r))), C::Nth(k) => log_h.push(Some(d.nth(k).map(|r| *r))), C::Len => len_h.push(d.len()) } } }
                after_h = hv.as_slice().iter().map(|r| **r).collect();
            } else {
                let mut hv: InlineVec<Rc<u32>, 8> = (0..6).map(m).collect();
                { let mut d = hv.drain(1..5); for x in [a, b, c] { match x { C::Next => log_h.push(Some(d.next().map(|r| *r))), C::NextBack => log_h.push(Some(d.next_back().map(|r| *r))), C::Nth(k) => log_h.push(Some(d.nth(k).map(|r| *r))), C::Len => len_h.push(d.len()) } } }
                after_h = hv.as_slice().iter().map(|r| **r).collect();
            }
            let after_s: Vec<u32> = sv.iter().map(|r| **r).collect();
            check(&format!("{}::drain(1..5) then {:?}, {:?}, {:?}", if kind == 0 { "ThinVec" } else { "InlineVec" }, a, b, c), log_s == log_h && len_s == len_h && after_s == after_h, format!("yielded {:?} lens {:?} left {:?}; Vec: {:?} {:?} {:?}", log_h, len_h, after_h, log_s, len_s, after_s));
        } } } }
        large_collects(&mut check);
        // the Copy twins
        let data: Vec<u8> = (0..12).collect();
        let mut ic: InlineVec<u8, 16> = InlineVec::from_slice_copy(&data[..5]); let mut vc: Vec<u8> = data[..5].to_vec();
        ic.extend_from_slice_copy(&data[5..9]); vc.extend_from_slice(&data[5..9]);
        check("from_slice_copy / extend_from_slice_copy", ic.as_slice() == &vc[..], format!("{:?}", ic.as_slice()));
        let cp = ic.copy();
        check("copy", cp.as_slice() == &vc[..] && cp.len() == ic.len(), format!("{:?}", cp.as_slice()));
        ic.extend_from_within_copy(2..6); vc.extend_from_within(2..6);
        check("extend_from_within_copy", ic.as_slice() == &vc[..], format!("{:?}", ic.as_slice()));
        let over = quiet_catch(AssertUnwindSafe(|| { let mut c = ic.copy(); c.extend_from_slice_copy(&data[..8]); }));
        check("extend_from_slice_copy beyond the capacity panics", over.is_err(), "accepted".into());
        let over = quiet_catch(AssertUnwindSafe(|| { let _c: InlineVec<u8, 4> = InlineVec::from_slice_copy(&data[..5]); }));
        check("from_slice_copy beyond the capacity panics", over.is_err(), "accepted".into());
        let mut tc: ThinVec<u8, Reserved> = ThinVec::from_slice_copy(&data[..5]); let mut vv = data[..5].to_vec();
        tc.extend_from_slice_copy(&data); vv.extend_from_slice(&data);
        check("ThinVec from_slice_copy / extend_from_slice_copy", tc.as_slice() == &vv[..], format!("{:?}", tc.as_slice()));
    }));
    if let Err(msg) = r { check("no panic in the battery", false, msg); }
    // capacity arithmetic panics exactly where Vec's does, for zero-sized and for sized elements
    {
        macro_rules! same_panic { ($name:expr, $hip:expr, $std:expr) => {{
            let (a, b) = (quiet_catch(AssertUnwindSafe(|| { $hip; })).is_err(), quiet_catch(AssertUnwindSafe(|| { $std; })).is_err());
            check(&format!("capacity arithmetic: {}", $name), a == b, format!("panics={} where Vec panics={}", a, b));
        }}; }
        same_panic!("ThinVec<()> len 1, reserve(usize::MAX)", { let mut t: ThinVec<(), Reserved> = ThinVec::new(); t.push(()); t.reserve(usize::MAX); }, { let mut v: Vec<()> = Vec::new(); v.push(()); v.reserve(usize::MAX); });
        same_panic!("ThinVec<()> len 1, reserve_exact(usize::MAX)", { let mut t: ThinVec<(), Reserved> = ThinVec::new(); t.push(()); t.reserve_exact(usize::MAX); }, { let mut v: Vec<()> = Vec::new(); v.push(()); v.reserve_exact(usize::MAX); });
        same_panic!("ThinVec<()> len 0, reserve(usize::MAX)", { let mut t: ThinVec<(), Reserved> = ThinVec::new(); t.reserve(usize::MAX); }, { let mut v: Vec<()> = Vec::new(); v.reserve(usize::MAX); });
        same_panic!("ThinVec<u8> len 1, reserve(usize::MAX)", { let mut t: ThinVec<u8, Reserved> = ThinVec::new(); t.push(1); t.reserve(usize::MAX); }, { let mut v: Vec<u8> = Vec::new(); v.push(1); v.reserve(usize::MAX); });
        same_panic!("ThinVec<u64> reserve(usize::MAX / 8 + 1)", { let mut t: ThinVec<u64, Reserved> = ThinVec::new(); t.reserve(usize::MAX / 8 + 1); }, { let mut v: Vec<u64> = Vec::new(); v.reserve(usize::MAX / 8 + 1); });
        same_panic!("ThinVec<u8> with_capacity(isize::MAX as usize + 1)", { let _t: ThinVec<u8, Reserved> = ThinVec::with_capacity(isize::MAX as usize + 1); }, { let _v: Vec<u8> = Vec::with_capacity(isize::MAX as usize + 1); });
    }
    let bad: Vec<(usize, usize)> = masters.iter().enumerate().map(|(i, r)| (i, Rc::strong_count(r))).filter(|(_, c)| *c != 1).collect();
    check("every element dropped exactly once (strong counts back to 1)", bad.is_empty(), format!("(element, strong count) = {:?}", bad));
    check("clean allocator", alloc::snap().errors == before, alloc::error_detail());
}

/// Scenario battery (oracle only, not modelled): API paths the model has no operation for -- iterator methods of Drain / IntoIter
/// (nth, nth_back, skip, step_by, rev, len), Extend / FromIterator, const_append, clone, a droppable ThinVec prefix whose `Default`
/// is user code -- each run once to count the user callbacks, then once per callback position with a panic injected there.
/// Whatever happens, the identity registry must see no element dropped twice, none dropped that was never created (a slot the
/// length wrongly covers), and the allocator monitor no error.  Without injection every element created must be gone at the end.
fn scenario_battery(sum: &mut Summary, inject: bool) {
    struct Pfx(El);
    impl Default for Pfx { fn default() -> Self { if tick() { reg(|r| r.log.push(Ev::Panic)); panic!("injected panic in Default"); } Pfx(fresh(777)) } }
    fn els(n: u64) -> Vec<El> { (0..n).map(fresh).collect() }
    fn thin(n: u64) -> ThinVec<El, Reserved> { let mut v = ThinVec::new(); for e in els(n) { v.push(e); } v }
    fn inl(n: u64) -> InlineVec<El, CAP> { let mut v = InlineVec::new(); for e in els(n) { v.push(e); } v }
    let scenarios: Vec<(&str, Box<dyn Fn()>)> = vec![
        ("ThinVec drain(1..5).nth(2), next, len", Box::new(|| { let mut v = thin(6); { let mut d = v.drain(1..5); let a = d.nth(2); let b = d.next(); let _ = d.len(); drop((a, b)); } drop(v); })),
        ("ThinVec drain(1..5).nth(9) then next", Box::new(|| { let mut v = thin(6); { let mut d = v.drain(1..5); let a = d.nth(9); let b = d.next(); drop((a, b)); } drop(v); })),
        ("InlineVec drain(1..5).nth(1), nth_back(1)", Box::new(|| { let mut v = inl(6); { let mut d = v.drain(1..5); let a = d.nth(1); let b = d.nth_back(1); drop((a, b)); } drop(v); })),
        ("InlineVec drain(..).skip(1).step_by(2).collect", Box::new(|| { let mut v = inl(7); let got: Vec<El> = v.drain(..).skip(1).step_by(2).collect(); drop(got); drop(v); })),
        ("ThinVec drain(2..).rev().skip(1).collect", Box::new(|| { let mut v = thin(6); let got: Vec<El> = v.drain(2..).rev().skip(1).collect(); drop(got); drop(v); })),
        ("ThinVec drain(0..3) dropped at once, then push", Box::new(|| { let mut v = thin(5); drop(v.drain(0..3)); v.push(fresh(9)); drop(v); })),
        ("InlineVec into_iter().nth(2), nth_back(1), drop", Box::new(|| { let v = inl(7); let mut it = v.into_iter(); let a = it.nth(2); let b = it.nth_back(1); drop((a, b)); drop(it); })),
        ("InlineVec into_iter().rev().skip(2).collect", Box::new(|| { let v = inl(6); let got: Vec<El> = v.into_iter().rev().skip(2).collect(); drop(got); })),
        ("InlineVec extend(iter) / collect", Box::new(|| { let mut v = inl(2); v.extend(mk_it(&[1, 2, 3], 0)); let w: InlineVec<El, CAP> = mk_it(&[4, 5], 5).collect(); drop((v, w)); })),
        ("ThinVec collect with a lying exact hint, then truncate", Box::new(|| { let mut w: ThinVec<El, Reserved> = mk_it(&[4, 5, 6, 7, 8, 9], 3).collect(); w.truncate(2); drop(w); })),
        ("InlineVec clone, then ThinVec::from(clone)", Box::new(|| { let v = inl(4); let c = v.clone(); let t: ThinVec<El, Reserved> = ThinVec::from(c); drop((v, t)); })),
        ("InlineVec const_append / append", Box::new(|| { let mut a = inl(3); let mut b: InlineVec<El, 4> = InlineVec::new(); for e in els(3) { b.push(e); } a.const_append(&mut b); let mut c = inl(1); a.append(&mut c); drop((a, b, c)); })),
        ("InlineVec resize_with / resize / truncate / clear", Box::new(|| { let mut v = inl(3); v.resize_with(6, || { if tick() { panic!("injected panic in closure"); } fresh(5) }); let x = fresh(6); v.resize(7, x); v.truncate(4); v.resize(2, fresh(8)); v.clear(); drop(v); })),
        ("ThinVec resize / truncate / clear / extend_from_within", Box::new(|| { let mut v = thin(3); let x = fresh(6); v.resize(6, x); v.extend_from_within(1..4); v.truncate(5); v.clear(); drop(v); })),
        ("ThinVec with a droppable prefix built by user code: new, push, split_off, drop", Box::new(|| { let mut v: ThinVec<El, Pfx> = ThinVec::new(); for e in els(4) { v.push(e); } let w = v.split_off(2); drop((v, w)); })),
        ("ThinVec<_, Pfx>::with_capacity / from slice", Box::new(|| { let v: ThinVec<El, Pfx> = ThinVec::with_capacity(3); let src = els(2); let w: ThinVec<El, Pfx> = ThinVec::from(&src[..]); drop((v, w, src)); })),
        ("ThinVec swap_remove / remove / insert out of bounds after valid ones", Box::new(|| { let mut v = thin(3); let a = v.swap_remove(0); let r = quiet_catch(AssertUnwindSafe(|| { let _ = v.swap_remove(7); })); assert!(r.is_err()); assert_eq!(v.len(), 2); let r = quiet_catch(AssertUnwindSafe(|| { let _ = v.remove(2); })); assert!(r.is_err()); assert_eq!(v.len(), 2); drop((a, v)); })),
    ];
    for (name, sc) in &scenarios {
        let mut run = |pan: Option<u64>| -> u64 {
            breadcrumb(&format!("vec scenario battery: {} pan={:?}", name, pan));
            reg(|r| { *r = Registry::default(); r.pan = pan; });
            let before = alloc::snap().errors;
            let r = quiet_catch(AssertUnwindSafe(|| sc()));
            let (errs, live, cbs, fired) = reg(|r| (std::mem::take(&mut r.errors), r.live.len(), r.cbs, r.fired));
            sum.evaluations += 1;
            let mut v: Vec<String> = errs;
            if alloc::snap().errors != before { v.push(format!("allocator monitor: {}", alloc::error_detail())); }
            if pan.is_none() { if let Err(m) = &r { v.push(format!("panicked without injection: {}", m)); } if live != 0 { v.push(format!("{} element(s) created by the scenario were never dropped (leak without any panic)", live)); } }
            if pan.is_some() && fired && r.is_ok() && !name.contains("out of bounds") { /* the scenario swallowed the panic itself: fine */ }
            if !v.is_empty() { sum.violation(format!("{{\"what\":{},\"observed\":{},\"expected\":\"every element dropped at most once, none that was never created, clean allocator\"}}", jstr(&format!("vec scenario battery: {} pan={:?} prof={}", name, pan, profile())), jstr(&v.join(" | ")))); }
            cbs
        };
        let total = run(None);
        if inject { for p in 0..total { run(Some(p)); } }
    }
    reg(|r| *r = Registry::default());
}

pub fn run(out_dir: &Path, tier: &str, seed: u64, rest: &[String]) {
    let focus = rest.iter().find_map(|a| a.strip_prefix("focus=")).unwrap_or("panic").to_string();
    let inject = focus == "panic";
    let seed = seed.wrapping_add(match focus.as_str() { "refine" => 11, "life" => 22, _ => 0 });
    silence_panics();
    let mut sum = Summary::default();
    let header = "From Hip Require Import Base Range VecModel CasesVec.\n";
    let thorough = tier == "thorough";
    let mut w = CaseWriter::new(out_dir, &format!("vec_{}", profile()), header, "Eval vm_compute in (bad_xcases cases 0).\n", if thorough { 60 } else { 25 });
    let mut n_inj = 0u64;
    for thin in [false, true] {
        for (ci, seq) in corpus().iter().enumerate() {
            let total = run_case(thin, seq, None, None, &mut sum, &mut w, &format!("corpus#{}", ci));
            // fault enumeration: every callback position of the un-injected run
            if inject { for p in 0..total { run_case(thin, seq, None, Some(p), &mut sum, &mut w, &format!("corpus#{}@{}", ci, p)); n_inj += 1; } }
        }
        let n_cases = if thorough { 300 } else if inject { 40 } else { 120 };
        for cidx in 0..n_cases {
            let s0 = seed.wrapping_mul(7_777_777).wrapping_add(cidx as u64 * 104729 + thin as u64);
            let n_ops = 8 + Rng::new(s0).below(if thorough { 30 } else { 16 });
            let mut rng = Rng::new(s0);
            let total = run_case(thin, &[], Some((&mut rng, n_ops)), None, &mut sum, &mut w, &format!("random#{}", cidx));
            // sampled fault positions (all of them for short runs)
            let positions: Vec<u64> = if !inject { vec![] } else if total <= 12 || thorough { (0..total).collect() } else { let mut r2 = Rng::new(s0 ^ 0xABCD); (0..6).map(|_| r2.below(total as usize) as u64).collect() };
            for p in positions {
                let mut rng = Rng::new(s0);
                run_case(thin, &[], Some((&mut rng, n_ops)), Some(p), &mut sum, &mut w, &format!("random#{}@{}", cidx, p));
                n_inj += 1;
            }
        }
    }
    if focus == "life" { extra_types(&mut sum); }
    if focus == "refine" { api_battery(&mut sum); }
    scenario_battery(&mut sum, inject);
    w.flush();
    sum.files = w.files.clone();
    sum.notes.push(format!("profile={} injected_runs={} allocator_errors={}", profile(), n_inj, alloc::error_detail()));
    sum.print();
}
