//! `traits` driver (C05): rustc's own verdict `T: Send` / `T: Sync` for every public type x backend, obtained by autoref
//! specialisation (no negative trait bounds needed), printed as Coq cases for the comparison with the model's `holds`.
use crate::util::*;
use hipstr::bytes::HipByt;
use hipstr::os_string::HipOsStr;
use hipstr::path::HipPath;
use hipstr::string::HipStr;
use hipstr::{Arc, Rc, Unique};
use std::marker::PhantomData;
use std::path::Path;

struct Probe<T: ?Sized>(PhantomData<T>);
fn probe_of<T>(_: &T) -> Probe<T> { Probe(PhantomData) }
trait Fallback { fn is_send(&self) -> bool { false } fn is_sync(&self) -> bool { false } }
impl<T: ?Sized> Fallback for &Probe<T> {}
trait IsSend { fn is_send(&self) -> bool; }
trait IsSync { fn is_sync(&self) -> bool; }
impl<T: ?Sized + Send> IsSend for Probe<T> { fn is_send(&self) -> bool { true } }
impl<T: ?Sized + Sync> IsSync for Probe<T> { fn is_sync(&self) -> bool { true } }
// method resolution: `(&Probe).is_send()` picks IsSend for Probe<T> when T: Send, else autorefs to Fallback for &Probe<T>
macro_rules! send { ($t:ty) => { (&Probe::<$t>(PhantomData)).is_send() } }
macro_rules! sync { ($t:ty) => { (&Probe::<$t>(PhantomData)).is_sync() } }

macro_rules! probe_all {
    ($emit:expr, $bk:ident, $bkname:expr, $lt:lifetime) => {{
        let mut e = $emit;
        e("HipByt", $bkname, send!(HipByt<$lt, $bk>), sync!(HipByt<$lt, $bk>));
        e("HipStr", $bkname, send!(HipStr<$lt, $bk>), sync!(HipStr<$lt, $bk>));
        e("HipOsStr", $bkname, send!(HipOsStr<$lt, $bk>), sync!(HipOsStr<$lt, $bk>));
        e("HipPath", $bkname, send!(HipPath<$lt, $bk>), sync!(HipPath<$lt, $bk>));
        e("bytes::RefMut", $bkname, send!(hipstr::bytes::RefMut<$lt, $lt, $bk>), sync!(hipstr::bytes::RefMut<$lt, $lt, $bk>));
        e("string::RefMut", $bkname, send!(hipstr::string::RefMut<$lt, $lt, $bk>), sync!(hipstr::string::RefMut<$lt, $lt, $bk>));
        e("os_string::RefMut", $bkname, send!(hipstr::os_string::RefMut<$lt, $lt, $bk>), sync!(hipstr::os_string::RefMut<$lt, $lt, $bk>));
        e("path::RefMut", $bkname, send!(hipstr::path::RefMut<$lt, $lt, $bk>), sync!(hipstr::path::RefMut<$lt, $lt, $bk>));
        e("bytes::SliceError", $bkname, send!(hipstr::bytes::SliceError<$lt, $lt, $bk>), sync!(hipstr::bytes::SliceError<$lt, $lt, $bk>));
        e("string::SliceError", $bkname, send!(hipstr::string::SliceError<$lt, $lt, $bk>), sync!(hipstr::string::SliceError<$lt, $lt, $bk>));
        e("FromUtf8Error", $bkname, send!(hipstr::string::FromUtf8Error<$lt, $bk>), sync!(hipstr::string::FromUtf8Error<$lt, $bk>));
        {
            // IterWrapper is not nameable from outside the crate: probe the type of a value
            let h: HipStr<'static, $bk> = HipStr::from("a,b");
            let it = h.split(',');
            let p = probe_of(&it);
            e("IterWrapper", $bkname, (&p).is_send(), (&p).is_sync());
        }
        e("Option<HipStr>", $bkname, send!(Option<HipStr<$lt, $bk>>), sync!(Option<HipStr<$lt, $bk>>));
        e("Vec<HipByt>", $bkname, send!(Vec<HipByt<$lt, $bk>>), sync!(Vec<HipByt<$lt, $bk>>));
        e("&HipStr", $bkname, send!(&$lt HipStr<$lt, $bk>), sync!(&$lt HipStr<$lt, $bk>));
        e("(HipPath, HipOsStr)", $bkname, send!((HipPath<$lt, $bk>, HipOsStr<$lt, $bk>)), sync!((HipPath<$lt, $bk>, HipOsStr<$lt, $bk>)));
    }};
}

fn probes<'a>(_witness: &'a u8, sum: &mut Summary, w: &mut CaseWriter, lifetime_name: &str) {
    let mut emit = |ty: &str, bk: &str, is_send: bool, is_sync: bool| {
        let safe = bk != "Rc";
        sum.evaluations += 2;
        // the property itself, on rustc's verdicts
        if is_send != safe { sum.violation(format!("{{\"what\":{},\"observed\":{},\"expected\":{}}}", jstr(&format!("traits {}<{}> ({}): Send", ty, bk, lifetime_name)), jstr(&is_send.to_string()), jstr(&safe.to_string()))); }
        if is_sync != safe { sum.violation(format!("{{\"what\":{},\"observed\":{},\"expected\":{}}}", jstr(&format!("traits {}<{}> ({}): Sync", ty, bk, lifetime_name)), jstr(&is_sync.to_string()), jstr(&safe.to_string()))); }
        sum.count(&format!("{}.send={}", bk, is_send));
        w.push(format!("TCase \"{}\" \"{}\" Send {}", ty, bk, is_send));
        w.push(format!("TCase \"{}\" \"{}\" Sync {}", ty, bk, is_sync));
        sum.sample(jstr(&format!("{}<{}> ({}): Send={} Sync={}", ty, bk, lifetime_name, is_send, is_sync)));
    };
    probe_all!(&mut emit, Arc, "Arc", 'a);
    probe_all!(&mut emit, Rc, "Rc", 'a);
    probe_all!(&mut emit, Unique, "Unique", 'a);
}

pub fn run(out_dir: &Path, _tier: &str, _seed: u64, _rest: &[String]) {
    let mut sum = Summary::default();
    let header = "From Coq Require Import List String Bool.\nImport ListNotations.\nFrom Hip Require Import AutoTraits CasesTraits.\nFrom HipGen Require Import TypeEnv.\nOpen Scope string_scope.\n";
    let mut w = CaseWriter::new(out_dir, &format!("traits_{}", profile()), header, "Eval vm_compute in (bad_tcases type_env cases 0).\n", 1000);
    // independently of the borrow lifetime: a local lifetime and 'static
    let local = 0u8;
    probes(&local, &mut sum, &mut w, "local lifetime");
    static S: u8 = 0;
    let sref: &'static u8 = &S;
    probes(sref, &mut sum, &mut w, "'static");
    // size_of::<Option<T>>() == size_of::<T>() == 3 words (C07 niche clause, observed here for the 12 type x backend pairs)
    macro_rules! niche { ($($t:ty),*) => { $( if std::mem::size_of::<Option<$t>>() != std::mem::size_of::<$t>() || std::mem::size_of::<$t>() != 3 * std::mem::size_of::<usize>() {
        sum.violation(format!("{{\"what\":{},\"observed\":{},\"expected\":\"24 = 24\"}}", jstr(concat!("size_of Option<", stringify!($t), ">")), jstr(&format!("{} vs {}", std::mem::size_of::<Option<$t>>(), std::mem::size_of::<$t>())))); } sum.evaluations += 1; )* } }
    niche!(HipByt<'static, Arc>, HipByt<'static, Rc>, HipByt<'static, Unique>, HipStr<'static, Arc>, HipStr<'static, Rc>, HipStr<'static, Unique>,
           HipOsStr<'static, Arc>, HipOsStr<'static, Rc>, HipOsStr<'static, Unique>, HipPath<'static, Arc>, HipPath<'static, Rc>, HipPath<'static, Unique>);
    w.flush();
    sum.files = w.files.clone();
    sum.nontrivial = w.total as u64;
    sum.print();
}
