//! `codec` driver (C16): borsh and serde for the Hip types, all backends.
//!  * borsh: round trips, every truncation of every valid encoding, length prefixes larger than the payload (up to u32::MAX),
//!    ill-formed UTF-8, with the largest single allocation request recorded by the allocator monitor;
//!  * serde: a one-token deserializer drives every visitor method of the owned and borrowing visitors directly; round trips
//!    through serde_json (escapes force buffered strings) for all four types, and from what String/Vec<u8>/OsString/PathBuf serialise to.
use crate::alloc;
use crate::util::*;
use borsh::BorshDeserialize;
use hipstr::bytes::HipByt;
use hipstr::os_string::HipOsStr;
use hipstr::path::HipPath;
use hipstr::string::HipStr;
use hipstr::{Arc, Backend, Rc, Unique};
use serde::de::{self, Deserializer, IntoDeserializer, Visitor};
use std::panic::AssertUnwindSafe;
use std::path::Path;
use std::sync::atomic::Ordering::SeqCst;

#[derive(Clone, Debug)]
enum Tok { Str(Vec<u8>), BorrowedStr(&'static [u8]), String_(Vec<u8>), Bytes(Vec<u8>), BorrowedBytes(&'static [u8]), ByteBuf(Vec<u8>), Seq(Vec<u8>), Other }
impl Tok {
    fn coq(&self) -> String {
        match self { Tok::Str(v) => format!("(KStr {})", coq_bytes(v)), Tok::BorrowedStr(v) => format!("(KBorrowedStr {})", coq_bytes(v)), Tok::String_(v) => format!("(KString {})", coq_bytes(v)),
            Tok::Bytes(v) => format!("(KBytes {})", coq_bytes(v)), Tok::BorrowedBytes(v) => format!("(KBorrowedBytes {})", coq_bytes(v)), Tok::ByteBuf(v) => format!("(KByteBuf {})", coq_bytes(v)),
            Tok::Seq(v) => format!("(KSeq {})", coq_bytes(v)), Tok::Other => "KOther".into() }
    }
}
/// a deserializer that hands exactly one token to the visitor
struct One(Tok);
impl<'de> Deserializer<'de> for One {
    type Error = de::value::Error;
    fn deserialize_any<V: Visitor<'de>>(self, v: V) -> Result<V::Value, Self::Error> {
        match self.0 {
            Tok::Str(b) => v.visit_str(std::str::from_utf8(&b).unwrap()),
            Tok::BorrowedStr(b) => v.visit_borrowed_str(std::str::from_utf8(b).unwrap()),
            Tok::String_(b) => v.visit_string(String::from_utf8(b).unwrap()),
            Tok::Bytes(b) => v.visit_bytes(&b),
            Tok::BorrowedBytes(b) => v.visit_borrowed_bytes(b),
            Tok::ByteBuf(b) => v.visit_byte_buf(b),
            Tok::Seq(b) => v.visit_seq(de::value::SeqDeserializer::<_, Self::Error>::new(b.into_iter())),
            Tok::Other => v.visit_i32(0),
        }
    }
    serde::forward_to_deserialize_any! { bool i8 i16 i32 i64 i128 u8 u16 u32 u64 u128 f32 f64 char str string bytes byte_buf option unit unit_struct newtype_struct seq tuple tuple_struct map struct enum identifier ignored_any }
}

fn serde_cases<B: Backend>(bk: &str, sum: &mut Summary, w: &mut CaseWriter, seen: &mut std::collections::HashSet<String>) {
    let texts: Vec<Vec<u8>> = vec![vec![], b"a".to_vec(), "h\u{e9}llo \u{1F980}".as_bytes().to_vec(), vec![b'x'; 23], vec![b'y'; 24], vec![b'z'; 60]];
    let bads: Vec<Vec<u8>> = vec![vec![0x80], vec![0xC0, 0x80], vec![b'a', 0xED, 0xA0, 0x80], vec![0xF4, 0x90, 0x80, 0x80], { let mut v = vec![b'q'; 30]; v.push(0xFF); v }, vec![0xC3], b"abc\xF0\x9F".to_vec(), { let mut v = vec![b'z'; 40]; v.extend_from_slice(&[0xE2, 0x82]); v }];
    let mut toks: Vec<Tok> = vec![Tok::Other];
    for t in &texts {
        let leaked: &'static [u8] = Box::leak(t.clone().into_boxed_slice());
        toks.extend([Tok::Str(t.clone()), Tok::BorrowedStr(leaked), Tok::String_(t.clone()), Tok::Bytes(t.clone()), Tok::BorrowedBytes(leaked), Tok::ByteBuf(t.clone()), Tok::Seq(t.clone())]);
    }
    for t in &bads {
        let leaked: &'static [u8] = Box::leak(t.clone().into_boxed_slice());
        toks.extend([Tok::Bytes(t.clone()), Tok::BorrowedBytes(leaked), Tok::ByteBuf(t.clone()), Tok::Seq(t.clone())]);
    }
    for tok in toks {
        for is_str in [false, true] {
            for borrowing in [false, true] {
                sum.evaluations += 1;
                let r: Result<Result<(Vec<u8>, bool, bool), ()>, String> = quiet_catch(AssertUnwindSafe(|| {
                    if is_str {
                        let h: Result<HipStr<'static, B>, _> = if borrowing { hipstr::string::serde::borrow_deserialize(One(tok.clone())) } else { serde::Deserialize::deserialize(One(tok.clone())) };
                        h.map(|h| (h.as_bytes().to_vec(), h.is_borrowed(), std::str::from_utf8(h.as_bytes()).is_ok() && h.verif_bytes().is_normalized())).map_err(|_| ())
                    } else {
                        let h: Result<HipByt<'static, B>, _> = if borrowing { hipstr::bytes::serde::borrow_deserialize(One(tok.clone())) } else { serde::Deserialize::deserialize(One(tok.clone())) };
                        h.map(|h| (h.as_slice().to_vec(), h.is_borrowed(), h.is_normalized())).map_err(|_| ())
                    }
                }));
                let desc = format!("serde ty={} bk={} borrowing={} token={} prof={}", if is_str { "str" } else { "byt" }, bk, borrowing, tok.coq().chars().take(60).collect::<String>(), profile());
                let out = match r {
                    Ok(Ok((v, borrowed, okval))) => {
                        if !okval { sum.violation(format!("{{\"what\":{},\"observed\":\"invalid value (ill-formed UTF-8 or not normalised)\",\"expected\":\"valid value or error\"}}", jstr(&desc))); }
                        // the property: borrow_deserialize borrows exactly when the format hands out borrowed data (and the plain form never does)
                        let hands_out_borrowed = matches!(tok, Tok::BorrowedStr(_) | Tok::BorrowedBytes(_));
                        if borrowed != (borrowing && hands_out_borrowed) { sum.violation(format!("{{\"what\":{},\"observed\":{},\"expected\":{}}}", jstr(&desc), jstr(&format!("is_borrowed() = {}", borrowed)), jstr(&format!("{}", borrowing && hands_out_borrowed)))); }
                        sum.count("serde.ok"); format!("(SOk_ {} {})", coq_bytes(&v), borrowed)
                    }
                    Ok(Err(())) => { sum.count("serde.err"); "SErr_".to_string() }
                    Err(m) => { sum.violation(format!("{{\"what\":{},\"observed\":{},\"expected\":\"error or value\"}}", jstr(&desc), jstr(&format!("panic: {}", m)))); "SErr_".to_string() }
                };
                let case = format!("SCodec {} {} {} {}", is_str, borrowing, tok.coq(), out);
                if seen.insert(case.clone()) { w.push(case); sum.sample(jstr(&format!("{} -> {}", desc, out.chars().take(50).collect::<String>()))); }
            }
        }
    }
}

fn json_roundtrips<B: Backend>(bk: &str, sum: &mut Summary) {
    let texts = ["", "a", "h\u{e9}llo \u{1F980}", "quote\" backslash\\ newline\n tab\t", &"x".repeat(23), &"y".repeat(24), &"long \"escaped\" ".repeat(5)];
    for t in texts {
        sum.evaluations += 4;
        let fail = |sum: &mut Summary, what: &str, obs: String| sum.violation(format!("{{\"what\":{},\"observed\":{},\"expected\":\"round trip\"}}", jstr(&format!("serde_json {} bk={} text={:?}", what, bk, t)), jstr(&obs)));
        // HipStr: serialises exactly like str; deserialises from itself and from what String serialises to
        let hs: HipStr<'static, B> = HipStr::from(t);
        let js = serde_json::to_string(&hs).unwrap();
        if js != serde_json::to_string(t).unwrap() { fail(sum, "HipStr serialises unlike str", js.clone()); }
        match serde_json::from_str::<HipStr<'static, B>>(&js) { Ok(h2) => if h2 != hs || !h2.verif_bytes().is_normalized() { fail(sum, "HipStr", format!("{:?}", h2)) }, Err(e) => fail(sum, "HipStr", e.to_string()) }
        // HipByt: the format's byte-string encoding (JSON: array of numbers), also from Vec<u8>
        let hb: HipByt<'static, B> = HipByt::from(t.as_bytes());
        let jb = serde_json::to_string(&hb).unwrap();
        if jb != serde_json::to_string(&t.as_bytes().to_vec()).unwrap() { fail(sum, "HipByt serialises unlike the byte-string encoding", jb.clone()); }
        match serde_json::from_str::<HipByt<'static, B>>(&jb) { Ok(h2) => if h2 != hb { fail(sum, "HipByt", format!("{:?}", h2)) }, Err(e) => fail(sum, "HipByt", e.to_string()) }
        // HipOsStr / HipPath: exactly like OsStr / Path, and from OsString / PathBuf
        let ho: HipOsStr<'static, B> = HipOsStr::from(t);
        let jo = serde_json::to_string(&ho).unwrap();
        if jo != serde_json::to_string(std::ffi::OsStr::new(t)).unwrap() { fail(sum, "HipOsStr serialises unlike OsStr", jo.clone()); }
        match serde_json::from_str::<HipOsStr<'static, B>>(&serde_json::to_string(&std::ffi::OsString::from(t)).unwrap()) { Ok(h2) => if h2 != ho { fail(sum, "HipOsStr", format!("{:?}", h2)) }, Err(e) => fail(sum, "HipOsStr", e.to_string()) }
        let hp: HipPath<'static, B> = HipPath::from(t);
        let jp = serde_json::to_string(&hp).unwrap();
        if jp != serde_json::to_string(std::path::Path::new(t)).unwrap() { fail(sum, "HipPath serialises unlike Path", jp.clone()); }
        match serde_json::from_str::<HipPath<'static, B>>(&serde_json::to_string(&std::path::PathBuf::from(t)).unwrap()) { Ok(h2) => if h2 != hp { fail(sum, "HipPath", format!("{:?}", h2)) }, Err(e) => fail(sum, "HipPath", e.to_string()) }
        // borrow_deserialize from JSON: borrows when the text needs no unescaping, otherwise equals the owning form
        let mut de = serde_json::Deserializer::from_str(&js);
        match hipstr::string::serde::borrow_deserialize::<_, B>(&mut de) {
            Ok(h2) => { let needs_buffer = js.contains('\\'); if h2.as_str() != t || (h2.is_borrowed() == needs_buffer && !t.is_empty()) { fail(sum, "borrow_deserialize", format!("{:?} borrowed={}", h2, h2.is_borrowed())) } }
            Err(e) => fail(sum, "borrow_deserialize", e.to_string()),
        }
        // malformed JSON: error, not a panic
        for cut in [1usize, js.len() / 2, js.len().saturating_sub(1)] {
            if cut < js.len() && js.is_char_boundary(cut) {
                let r = quiet_catch(AssertUnwindSafe(|| serde_json::from_str::<HipStr<'static, B>>(&js[..cut]).is_ok()));
                if !matches!(r, Ok(false)) { fail(sum, "truncated JSON", format!("{:?}", r)); }
            }
        }
    }
}

/// borsh through readers other than `&[u8]`: (a) data delivered piecewise (short reads are legal for `Read`): the outcome must be
/// exactly the outcome on the same bytes in one slice, and what Vec<u8> / String read from the same reader; (b) a reader written in
/// safe code that lies (claims bytes it did not write) or inspects the buffer it is handed: the library must never hand it, nor
/// return, memory that was not initialised (the allocator monitor fills fresh blocks with 0xA5).
fn borsh_readers<B: Backend>(bk: &str, sum: &mut Summary) {
    struct Piecewise<'a> { data: &'a [u8], chunk: usize }
    impl borsh::io::Read for Piecewise<'_> {
        fn read(&mut self, buf: &mut [u8]) -> borsh::io::Result<usize> { let n = buf.len().min(self.chunk).min(self.data.len()); buf[..n].copy_from_slice(&self.data[..n]); self.data = &self.data[n..]; Ok(n) }
    }
    struct Liar { head: Vec<u8>, left: usize, saw_uninit: bool, wrote: usize }
    impl borsh::io::Read for Liar {
        fn read(&mut self, buf: &mut [u8]) -> borsh::io::Result<usize> {
            if !self.head.is_empty() { let n = buf.len().min(self.head.len()); buf[..n].copy_from_slice(&self.head[..n]); self.head.drain(..n); return Ok(n); }
            if buf.len() >= 8 && buf.iter().all(|&b| b == 0xA5) { self.saw_uninit = true; }
            let n = buf.len().min(self.left); self.left -= n;
            if n > 0 { buf[0] = b'w'; self.wrote += 1; }      // writes one byte, claims n
            Ok(n)
        }
    }
    let payloads: Vec<Vec<u8>> = vec![b"a".to_vec(), b"hello world".to_vec(), vec![b'x'; 23], vec![b'y'; 24], vec![b'z'; 300], "h\u{e9}llo \u{1F980}".as_bytes().to_vec(), vec![b'q'; 5000]];
    for v in &payloads {
        let enc = borsh::to_vec(v).unwrap();
        for chunk in [1usize, 2, 3, 7, 4096] {
            for is_str in [false, true] {
                sum.evaluations += 1;
                let whole: Option<Vec<u8>> = { let mut rd: &[u8] = &enc; if is_str { HipStr::<B>::deserialize_reader(&mut rd).ok().map(|h| h.as_bytes().to_vec()) } else { HipByt::<B>::deserialize_reader(&mut rd).ok().map(|h| h.as_slice().to_vec()) } };
                let mut pr = Piecewise { data: &enc, chunk };
                let piece: Option<Vec<u8>> = if is_str { HipStr::<B>::deserialize_reader(&mut pr).ok().map(|h| h.as_bytes().to_vec()) } else { HipByt::<B>::deserialize_reader(&mut pr).ok().map(|h| h.as_slice().to_vec()) };
                let mut pr2 = Piecewise { data: &enc, chunk };
                let stdv: Option<Vec<u8>> = if is_str { String::deserialize_reader(&mut pr2).ok().map(|s| s.into_bytes()) } else { Vec::<u8>::deserialize_reader(&mut pr2).ok() };
                if piece != whole || piece != stdv {
                    sum.violation(format!("{{\"what\":{},\"observed\":{},\"expected\":{}}}", jstr(&format!("borsh ty={} bk={} the encoding of {} bytes delivered {} byte(s) per read prof={}", if is_str { "str" } else { "byt" }, bk, v.len(), chunk, profile())),
                        jstr(&format!("{:?}", piece.as_ref().map(|x| x.len()))), jstr(&format!("{:?} (one slice) / {:?} (std from the same reader)", whole.as_ref().map(|x| x.len()), stdv.as_ref().map(|x| x.len())))));
                }
            }
        }
    }
    for n in [1usize, 8, 100, 5000] {
        for is_str in [false, true] {
            sum.evaluations += 1;
            let mut liar = Liar { head: (n as u32).to_le_bytes().to_vec(), left: n, saw_uninit: false, wrote: 0 };
            let got: Option<Vec<u8>> = { let rd = &mut liar; if is_str { HipStr::<B>::deserialize_reader(rd).ok().map(|h| h.as_bytes().to_vec()) } else { HipByt::<B>::deserialize_reader(rd).ok().map(|h| h.as_slice().to_vec()) } };
            let exposed = got.as_ref().map_or(0, |g| g.iter().filter(|&&b| b == 0xA5).count());
            if liar.saw_uninit || exposed > 0 {
                sum.violation(format!("{{\"what\":{},\"observed\":{},\"expected\":\"only initialised memory is handed to the reader or returned\"}}", jstr(&format!("borsh ty={} bk={} length prefix {} from a reader (safe code) that claims bytes it does not write prof={}", if is_str { "str" } else { "byt" }, bk, n, profile())),
                    jstr(&format!("the reader was handed uninitialised memory: {}; {} byte(s) of the returned value are uninitialised (0xA5 fresh-block fill)", liar.saw_uninit, exposed))));
            }
        }
    }
}

/// OS strings and paths that are not UTF-8: the Hip wrappers serialise (or refuse to) exactly like OsStr / Path, and read back what std wrote
fn json_non_utf8<B: Backend>(bk: &str, sum: &mut Summary) {
    use std::os::unix::ffi::OsStrExt;
    for raw in [&b"/tmp/caf\xE9.txt"[..], b"\x80", b"ok/\xF0\x9F\xA6", b"plain/ascii", b"caf\xC3\xA9"] {
        sum.evaluations += 4;
        let os = std::ffi::OsStr::from_bytes(raw); let pa = std::path::Path::new(os);
        let mut fail = |what: &str, got: String, exp: String| sum.violation(format!("{{\"what\":{},\"observed\":{},\"expected\":{}}}", jstr(&format!("serde_json {} of non-UTF-8 aware input bk={} bytes={}", what, bk, hex(raw))), jstr(&got), jstr(&exp)));
        let (e, g) = (serde_json::to_string(pa).map_err(|e| e.to_string()), serde_json::to_string(&HipPath::<B>::from(pa)).map_err(|e| e.to_string()));
        if e != g { fail("HipPath serialises unlike Path", format!("{:?}", g), format!("{:?}", e)); }
        if let Ok(js) = &e { match serde_json::from_str::<HipPath<'static, B>>(js) { Ok(h) => if h.as_os_str().as_bytes() != raw { fail("HipPath round trip", hex(h.as_os_str().as_bytes()), hex(raw)) }, Err(er) => fail("HipPath from what Path serialises to", er.to_string(), "Ok".into()) } }
        let (e, g) = (serde_json::to_string(os).map_err(|e| e.to_string()), serde_json::to_string(&HipOsStr::<B>::from(os)).map_err(|e| e.to_string()));
        if e != g { fail("HipOsStr serialises unlike OsStr", format!("{:?}", g), format!("{:?}", e)); }
        if let Ok(js) = &e { match serde_json::from_str::<HipOsStr<'static, B>>(js) { Ok(h) => if h.as_os_str().as_bytes() != raw { fail("HipOsStr round trip", hex(h.as_os_str().as_bytes()), hex(raw)) }, Err(er) => fail("HipOsStr from what OsStr serialises to", er.to_string(), "Ok".into()) } }
    }
}

fn borsh_cases<B: Backend>(bk: &str, sum: &mut Summary, w: &mut CaseWriter, seen: &mut std::collections::HashSet<String>) {
    let values: Vec<Vec<u8>> = vec![vec![], b"a".to_vec(), "h\u{e9}llo".as_bytes().to_vec(), vec![b'x'; 23], vec![b'y'; 24], vec![b'z'; 100], vec![0x80, 0xFF], { let mut v = vec![b'q'; 30]; v.push(0xC0); v },
        // truncated multi-byte sequences at the very end (incomplete, not invalid, for an incremental validator)
        vec![0xC3], b"abc\xF0\x9F".to_vec(), b"ab\xE2\x82".to_vec(), { let mut v = vec![b'z'; 40]; v.extend_from_slice(&[0xF0, 0x9F, 0xA6]); v }, { let mut v = vec![b'a'; 4095]; v.push(0xC3); v }, { let mut v = vec![b'a'; 4095]; v.extend_from_slice("\u{e9}".as_bytes()); v },
        // ill-formed sequences straddling the 1024 / 4096 / 8192 offsets (where an incremental reader would cut), followed by more payload
        { let mut v = vec![b'a'; 4095]; v.push(0xE2); v.extend_from_slice(b"aaaaaaaaaa"); v }, { let mut v = vec![b'a'; 4094]; v.extend_from_slice(&[0xE2, 0x82]); v.extend_from_slice(b"bbbbb"); v },
        { let mut v = vec![b'a'; 4093]; v.extend_from_slice(&[0xF0, 0x9F, 0xA6]); v.extend_from_slice(b"zz"); v }, { let mut v = vec![b'a'; 4095]; v.extend_from_slice(&[0xC3, 0x41]); v },
        { let mut v = vec![b'a'; 1023]; v.push(0xC3); v }, { let mut v = vec![b'a'; 1023]; v.extend_from_slice(&[0xE2, 0x41, 0x41]); v }, { let mut v = vec![b'a'; 8191]; v.extend_from_slice(&[0xF0, 0x9F, 0x41, 0x41]); v },
        { let mut v = vec![b'a'; 4095]; v.extend_from_slice("\u{20ac}".as_bytes()); v.extend_from_slice(b"ok"); v }, { let mut v = vec![b'a'; 4094]; v.extend_from_slice("\u{1F980}".as_bytes()); v.extend_from_slice(b"ok"); v }];
    let mut inputs: Vec<Vec<u8>> = vec![vec![], vec![1], vec![1, 0, 0], vec![0xff, 0xff, 0xff, 0xff, 1, 2, 3], vec![0, 0, 0, 0x80, 9, 9], vec![0x10, 0x27, 0, 0, 5]];
    for v in &values {
        let enc = borsh::to_vec(&HipByt::<B>::from(&v[..])).unwrap();
        if enc != borsh::to_vec(v).unwrap() { sum.violation(format!("{{\"what\":{},\"observed\":\"HipByt does not use the byte-string encoding\",\"expected\":\"Vec<u8> encoding\"}}", jstr(&format!("borsh ser bk={}", bk)))); }
        if let Ok(s) = std::str::from_utf8(v) { if borsh::to_vec(&HipStr::<B>::from(s)).unwrap() != borsh::to_vec(s).unwrap() { sum.violation(format!("{{\"what\":{},\"observed\":\"HipStr serialises unlike str\",\"expected\":\"str encoding\"}}", jstr(&format!("borsh ser bk={}", bk)))); } }
        for cut in 0..=enc.len() { if cut <= 8 || cut + 3 >= enc.len() || (enc.len() < 200 && cut % 7 == 0) { inputs.push(enc[..cut].to_vec()); } }
        let mut more = enc.clone(); more.extend_from_slice(&[7, 7]); inputs.push(more);
    }
    // length prefixes that lie, followed by MORE real payload than the reader's first reservation (4096): the reader must not
    // start trusting the prefix once that reservation is used up
    for prefix in [0x0400_0000u32, 0x7fff_ffff, 0xffff_ffff, 0x0001_0000] {
        for real in [4095usize, 4096, 4097, 5000, 9000] { let mut v = prefix.to_le_bytes().to_vec(); v.extend(std::iter::repeat(b'a').take(real)); inputs.push(v); }
    }
    let show = |input: &[u8]| -> String { if input.len() > 300 && input[4..].iter().all(|&b| b == input[4]) { format!("{} followed by {} x {:02x}", hex(&input[..4]), input.len() - 4, input[4]) } else { hex(input) } };
    for input in inputs {
        for is_str in [false, true] {
            sum.evaluations += 1;
            breadcrumb(&format!("borsh deserialize_reader ty={} bk={} input={}", if is_str { "str" } else { "byt" }, bk, show(&input)));
            alloc::MAX_REQUEST.store(0, SeqCst);
            let r = quiet_catch(AssertUnwindSafe(|| alloc::window(|| {
                let mut rd: &[u8] = &input;
                if is_str { HipStr::<B>::deserialize_reader(&mut rd).map(|h| (h.as_bytes().to_vec_out(), rd.len(), std::str::from_utf8(h.as_bytes()).is_ok() && h.verif_bytes().is_normalized())).map_err(|_| ()) }
                else { HipByt::<B>::deserialize_reader(&mut rd).map(|h| (h.as_slice().to_vec_out(), rd.len(), h.is_normalized())).map_err(|_| ()) }
            })));
            alloc::set_window(false);
            let maxreq = alloc::MAX_REQUEST.load(SeqCst);
            let desc = format!("borsh ty={} bk={} input={} prof={}", if is_str { "str" } else { "byt" }, bk, show(&input), profile());
            // the property: never an allocation out of proportion to the input actually supplied
            if maxreq > 4096.max(2 * input.len()) + 64 { sum.violation(format!("{{\"what\":{},\"observed\":{},\"expected\":\"at most max(4096, 2 x input)\"}}", jstr(&desc), jstr(&format!("a single allocation request of {} bytes for {} bytes of input", maxreq, input.len())))); }
            let out = match r {
                Ok(Ok((v, rest, okval))) => {
                    if !okval { sum.violation(format!("{{\"what\":{},\"observed\":\"invalid value\",\"expected\":\"valid value or error\"}}", jstr(&desc))); }
                    // oracle: what Vec<u8> / String read from the same input
                    let mut rd: &[u8] = &input;
                    let o: Option<Vec<u8>> = if is_str { String::deserialize_reader(&mut rd).ok().map(|s| s.into_bytes()) } else { Vec::<u8>::deserialize_reader(&mut rd).ok() };
                    if o.as_ref() != Some(&v) { sum.violation(format!("{{\"what\":{},\"observed\":{},\"expected\":{}}}", jstr(&desc), jstr(&hex(&v)), jstr(&format!("{:?}", o.map(|x| hex(&x)))))); }
                    sum.count("borsh.ok"); format!("(BOk {} {})", coq_bytes(&v), rest)
                }
                Ok(Err(())) => { sum.count("borsh.err"); "BErr".to_string() }
                Err(m) => { sum.violation(format!("{{\"what\":{},\"observed\":{},\"expected\":\"error or value\"}}", jstr(&desc), jstr(&format!("panic: {}", m)))); "BErr".to_string() }
            };
            let case = format!("BCodec {} {} {} {}", is_str, coq_bytes(&input), out, maxreq);
            if seen.insert(case.clone()) { w.push(case); sum.sample(jstr(&format!("{} -> {} max_request={}", desc, out.chars().take(40).collect::<String>(), maxreq))); }
        }
    }
}
trait VecOut { fn to_vec_out(&self) -> Vec<u8>; }
impl VecOut for [u8] { fn to_vec_out(&self) -> Vec<u8> { alloc::pause(|| self.to_vec()) } }

pub fn run(out_dir: &Path, _tier: &str, _seed: u64, _rest: &[String]) {
    silence_panics();
    let mut sum = Summary::default();
    let header = "From Hip Require Import Base Utf8 CasesRange Codec CasesCodec.\n";
    let mut wb = CaseWriter::new(out_dir, &format!("codec_borsh_{}", profile()), header, "Eval vm_compute in (bad_indices check_borsh cases 0).\n", 400);
    let mut ws = CaseWriter::new(out_dir, &format!("codec_serde_{}", profile()), header, "Eval vm_compute in (bad_indices check_serde cases 0).\n", 400);
    let mut seen = std::collections::HashSet::new();
    macro_rules! all { ($b:ty, $n:expr) => { borsh_cases::<$b>($n, &mut sum, &mut wb, &mut seen); serde_cases::<$b>($n, &mut sum, &mut ws, &mut seen); json_roundtrips::<$b>($n, &mut sum); json_non_utf8::<$b>($n, &mut sum); borsh_readers::<$b>($n, &mut sum); } }
    all!(Arc, "arc"); all!(Rc, "rc"); all!(Unique, "unique");
    wb.flush(); ws.flush();
    sum.files = wb.files.iter().chain(ws.files.iter()).cloned().collect();
    sum.nontrivial = (wb.total + ws.total) as u64;
    sum.print();
    let _ = IntoDeserializer::<de::value::Error>::into_deserializer(0u8);
}
