//! `counter` driver (C09, C04 value level): the three `Kind` implementations through the counted pointer `Smart`,
//! from stored states next to 0 and next to the ceiling (set through the cfg(hipstr_verif) hook).
use crate::util::*;
use hipstr::verif::{Kind, Smart};
use hipstr::{Arc, Rc, Unique};
use std::path::Path;

fn probe<C: Kind>(bk: &str, coq_bk: &str, unique: bool, sum: &mut Summary, w: &mut CaseWriter) {
    let states: Vec<usize> = vec![0, 1, 2, 5, usize::MAX - 4, usize::MAX - 3, usize::MAX - 2, usize::MAX - 1];
    for &s in &states {
        if unique && s != 0 { continue; }            // Unique stores nothing
        sum.evaluations += 1;
        let a: Smart<Vec<u8>, C> = Smart::new(vec![1, 2, 3]);
        a.verif_force_count(s);
        let get = a.verif_count();
        let uniq = a.is_unique();
        let b = a.clone();
        let shared = a.verif_addr() == b.verif_addr();
        let get_after = a.verif_count();
        // oracle of the property: the count never wraps, a refused increment yields an independent valid copy
        if get_after == 0 || (!unique && get_after < get) { sum.violation(format!("{{\"what\":{},\"observed\":{},\"expected\":\"no wrap\"}}", jstr(&format!("counter bk={} stored={}", bk, s)), jstr(&format!("get {} -> {}", get, get_after)))); }
        if !shared && (b.as_ref() != a.as_ref() || !b.is_unique()) { sum.violation(format!("{{\"what\":{},\"observed\":\"fallback copy is not an independent unique value\",\"expected\":\"independent copy\"}}", jstr(&format!("counter bk={} stored={}", bk, s)))); }
        if !unique && s >= usize::MAX - 1 && shared { sum.violation(format!("{{\"what\":{},\"observed\":\"shared at the ceiling\",\"expected\":\"copy\"}}", jstr(&format!("counter bk={} stored={}", bk, s)))); }
        sum.count(if shared { "clone.shared" } else { "clone.copied" });
        w.push(format!("KCase {} {} {} {} {} {}", coq_bk, s, get, uniq, shared, get_after));
        sum.sample(jstr(&format!("bk={} stored={} get={} unique={} clone_shared={} get_after={}", bk, s, get, uniq, shared, get_after)));
        // put the true count back before dropping (2 handles if shared, else 1 each)
        if !unique { a.verif_force_count(if shared { 1 } else { 0 }); }
        drop(b);
        drop(a);
    }
}

pub fn run(out_dir: &Path, _tier: &str, _seed: u64, _rest: &[String]) {
    let mut sum = Summary::default();
    let header = "From Hip Require Import Base Bytes CasesCounter.\n";
    let mut w = CaseWriter::new(out_dir, &format!("counter_{}", profile()), header, "Eval vm_compute in (bad_kcases cases 0).\n", 500);
    probe::<Arc>("arc", "BArc", false, &mut sum, &mut w);
    probe::<Rc>("rc", "BRc", false, &mut sum, &mut w);
    probe::<Unique>("unique", "BUnique", true, &mut sum, &mut w);
    w.flush();
    sum.files = w.files.clone();
    sum.nontrivial = w.total as u64;
    sum.print();
}
