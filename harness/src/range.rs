//! `range` driver (C08): try_slice / slice / try_slice_ref / slice_ref on the string family,
//! try_drain / drain / try_extend_from_within / extend_from_within on the vectors,
//! over the exhaustive boundary lattice of DESIGN.md section 6/C08.
//!
//! For every case the implementation's outcome is (1) compared here with the property's own oracle
//! (std's checked indexing / Vec::drain) -- a difference is a *violation of the property on the real code* --
//! and (2) written as a Coq case so that `coqc` compares it with the model (correspondence).
use crate::util::*;
use hipstr::bytes::HipByt;
use hipstr::string::HipStr;
use hipstr::vecs::thin::ThinVec;
use hipstr::vecs::InlineVec;
use hipstr::{Arc, Backend, Rc, Unique};
use std::collections::HashSet;
use std::ops::Bound;
use std::panic::AssertUnwindSafe;
use std::path::Path;

fn coq_bound(b: Bound<usize>) -> String {
    match b {
        Bound::Included(n) => format!("(Incl {})", n),
        Bound::Excluded(n) => format!("(Excl {})", n),
        Bound::Unbounded => "Unb".into(),
    }
}
fn show_bound(b: Bound<usize>) -> String {
    match b {
        Bound::Included(n) => format!("I{}", n),
        Bound::Excluded(n) => format!("E{}", n),
        Bound::Unbounded => "U".into(),
    }
}

fn bounds_for(len: usize, extra: &[usize]) -> Vec<Bound<usize>> {
    let mut vals: Vec<usize> = vec![0, 1, len.wrapping_sub(1), len, len + 1, usize::MAX - 1, usize::MAX, (isize::MAX as usize), (isize::MAX as usize) + 1];
    vals.extend_from_slice(extra);
    vals.sort();
    vals.dedup();
    let mut out = vec![Bound::Unbounded];
    for v in vals {
        out.push(Bound::Included(v));
        out.push(Bound::Excluded(v));
    }
    out
}

#[derive(Clone, Copy, PartialEq, Eq, Debug)]
enum Repr { Inline, Borrowed, Heap, HeapOffset, HeapShort }

fn byt_content(len: usize) -> Vec<u8> {
    (0..len).map(|i| i as u8).collect()
}
fn str_content(len: usize) -> String {
    // multi-byte carriers: a é € 🦀, padded with 'a' to reach the exact length
    let mut s = String::new();
    // (continuation bytes at both ends of 0x80..=0xBF: U+00C0 = C3 80, U+07FF = DF BF, U+2013 = E2 80 93, U+FFFF = EF BF BF)
    let pieces = ["a", "\u{e9}", "\u{20ac}", "\u{1F980}", "b", "\u{c0}", "\u{7ff}", "\u{2013}", "\u{ffff}"];
    let mut i = 0;
    while s.len() < len {
        let p = pieces[i % pieces.len()];
        if s.len() + p.len() <= len { s.push_str(p); } else { s.push('z'); }
        i += 1;
    }
    s
}

fn make_byt<B: Backend>(content: &'static [u8], repr: Repr) -> Option<HipByt<'static, B>> {
    let len = content.len();
    match repr {
        Repr::Inline => if len <= 23 { Some(HipByt::inline(content)) } else { None },
        Repr::Borrowed => Some(HipByt::borrowed(content)),
        Repr::Heap => if len > 23 { Some(HipByt::from(content.to_vec())) } else { None },
        Repr::HeapOffset => if len > 23 {
            let mut v = vec![0xEEu8; 7];
            v.extend_from_slice(content);
            v.extend_from_slice(&[0xEE; 5]);
            let big: HipByt<'static, B> = HipByt::from(v);
            Some(big.slice(7..7 + len))
        } else { None },
        Repr::HeapShort => if len <= 23 {
            let mut h = HipByt::with_capacity(40);
            h.push_slice(content);
            Some(h)
        } else { None },
    }
}

fn kind_byt(k: hipstr::bytes::SliceErrorKind) -> &'static str {
    use hipstr::bytes::SliceErrorKind::*;
    match k { StartGreaterThanEnd => "SStartGreaterThanEnd", StartOutOfBounds => "SStartOutOfBounds", EndOutOfBounds => "SEndOutOfBounds" }
}
fn kind_str(k: hipstr::string::SliceErrorKind) -> &'static str {
    use hipstr::string::SliceErrorKind::*;
    match k {
        StartGreaterThanEnd => "SStartGreaterThanEnd", StartOutOfBounds => "SStartOutOfBounds", EndOutOfBounds => "SEndOutOfBounds",
        StartNotACharBoundary => "SStartNotACharBoundary", EndNotACharBoundary => "SEndNotACharBoundary",
    }
}

struct Ctx<'a> {
    sum: &'a mut Summary,
    seen: HashSet<String>,
    slice_w: CaseWriter,
    ref_w: CaseWriter,
    vec_w: CaseWriter,
}

fn slices_byt<B: Backend>(cx: &mut Ctx, bk: &str, lens: &[usize], reprs: &[Repr]) {
    for &len in lens {
        let content: &'static [u8] = Box::leak(byt_content(len).into_boxed_slice());
        let bounds = bounds_for(len, &[]);
        for &repr in reprs {
            let Some(h) = make_byt::<B>(content, repr) else { continue };
            assert_eq!(h.as_slice(), content);
            for &s in &bounds {
                for &e in &bounds {
                    cx.sum.evaluations += 1;
                    let out = quiet_catch(AssertUnwindSafe(|| h.try_slice((s, e)).map(|r| r.as_slice().to_vec()).map_err(|er| (er.kind(), er.start(), er.end()))));
                    let slice_panicked = quiet_catch(AssertUnwindSafe(|| { let _ = h.slice((s, e)); })).is_err();
                    let oracle: Option<&[u8]> = content.get((s, e));
                    let desc = format!("try_slice ty=byt bk={} repr={:?} len={} range=({},{}) prof={}", bk, repr, len, show_bound(s), show_bound(e), profile());
                    let coq_out = match &out {
                        Ok(Ok(bytes)) => {
                            if oracle != Some(&bytes[..]) {
                                cx.sum.violation(format!("{{\"what\":{},\"observed\":{},\"expected\":{}}}", jstr(&desc), jstr(&format!("Ok({})", hex(bytes))), jstr(&format!("{:?}", oracle.map(hex)))));
                            }
                            cx.sum.count("try_slice.ok");
                            format!("(SOk {})", coq_bytes(bytes))
                        }
                        Ok(Err((k, a, b))) => {
                            if oracle.is_some() {
                                cx.sum.violation(format!("{{\"what\":{},\"observed\":{},\"expected\":{}}}", jstr(&desc), jstr(&format!("Err({:?},{},{})", k, a, b)), jstr("Ok")));
                            }
                            cx.sum.count(&format!("try_slice.err.{:?}", k));
                            format!("(SErr {} {} {})", kind_byt(*k), a, b)
                        }
                        Err(msg) => {
                            cx.sum.violation(format!("{{\"what\":{},\"observed\":{},\"expected\":{}}}", jstr(&desc), jstr(&format!("panic: {}", msg)), jstr(if oracle.is_some() { "Ok" } else { "Err" })));
                            cx.sum.count("try_slice.panic");
                            "SPanic".to_string()
                        }
                    };
                    if slice_panicked != oracle.is_none() {
                        cx.sum.violation(format!("{{\"what\":{},\"observed\":{},\"expected\":{}}}", jstr(&desc.replace("try_slice", "slice")), jstr(&format!("panicked={}", slice_panicked)), jstr(&format!("panicked={}", oracle.is_none()))));
                    }
                    let case = format!("SliceCase false {} {} {} {} {}", coq_bytes(content), coq_bound(s), coq_bound(e), coq_out, slice_panicked);
                    if cx.seen.insert(case.clone()) {
                        cx.slice_w.push(case);
                        cx.sum.sample(jstr(&format!("{} -> {}", desc, coq_out)));
                    }
                }
            }
        }
    }
}

fn slices_str<B: Backend>(cx: &mut Ctx, bk: &str, lens: &[usize], reprs: &[Repr]) {
    for &len in lens {
        let content: &'static str = Box::leak(str_content(len).into_boxed_str());
        assert_eq!(content.len(), len);
        // interior positions of multi-byte characters are interesting cut points
        // (one position per distinct continuation byte value, so that both ends of 0x80..=0xBF are cut)
        let mut seen_vals = std::collections::BTreeSet::new();
        let interior: Vec<usize> = (0..=len).filter(|&i| !content.is_char_boundary(i) && seen_vals.insert(content.as_bytes()[i])).take(12).collect();
        let bounds = bounds_for(len, &interior);
        for &repr in reprs {
            let Some(hb) = make_byt::<B>(content.as_bytes(), repr) else { continue };
            let h: HipStr<'static, B> = HipStr::try_from(hb).expect("valid utf8");
            for &s in &bounds {
                for &e in &bounds {
                    cx.sum.evaluations += 1;
                    let out = quiet_catch(AssertUnwindSafe(|| h.try_slice((s, e)).map(|r| r.as_bytes().to_vec()).map_err(|er| (er.kind(), er.start(), er.end()))));
                    let slice_panicked = quiet_catch(AssertUnwindSafe(|| { let _ = h.slice((s, e)); })).is_err();
                    let oracle: Option<&str> = content.get((s, e));
                    let desc = format!("try_slice ty=str bk={} repr={:?} len={} range=({},{}) prof={}", bk, repr, len, show_bound(s), show_bound(e), profile());
                    let coq_out = match &out {
                        Ok(Ok(bytes)) => {
                            if oracle.map(|o| o.as_bytes()) != Some(&bytes[..]) || std::str::from_utf8(bytes).is_err() {
                                cx.sum.violation(format!("{{\"what\":{},\"observed\":{},\"expected\":{}}}", jstr(&desc), jstr(&format!("Ok({})", hex(bytes))), jstr(&format!("{:?}", oracle))));
                            }
                            cx.sum.count("str.try_slice.ok");
                            format!("(SOk {})", coq_bytes(bytes))
                        }
                        Ok(Err((k, a, b))) => {
                            if oracle.is_some() {
                                cx.sum.violation(format!("{{\"what\":{},\"observed\":{},\"expected\":{}}}", jstr(&desc), jstr(&format!("Err({:?},{},{})", k, a, b)), jstr("Ok")));
                            }
                            cx.sum.count(&format!("str.try_slice.err.{:?}", k));
                            format!("(SErr {} {} {})", kind_str(*k), a, b)
                        }
                        Err(msg) => {
                            cx.sum.violation(format!("{{\"what\":{},\"observed\":{},\"expected\":{}}}", jstr(&desc), jstr(&format!("panic: {}", msg)), jstr(if oracle.is_some() { "Ok" } else { "Err" })));
                            "SPanic".to_string()
                        }
                    };
                    if slice_panicked != oracle.is_none() {
                        cx.sum.violation(format!("{{\"what\":{},\"observed\":{},\"expected\":{}}}", jstr(&desc.replace("try_slice", "slice")), jstr(&format!("panicked={}", slice_panicked)), jstr(&format!("panicked={}", oracle.is_none()))));
                    }
                    let case = format!("SliceCase true {} {} {} {} {}", coq_bytes(content.as_bytes()), coq_bound(s), coq_bound(e), coq_out, slice_panicked);
                    if cx.seen.insert(case.clone()) {
                        cx.slice_w.push(case);
                        cx.sum.sample(jstr(&format!("{} -> {}", desc, coq_out)));
                    }
                }
            }
        }
    }
}

/// slice_ref probes.  `arena` is one leaked buffer; the whole is `arena[ws..ws+wl]`, candidates are arbitrary sub-slices of the arena
/// (inside, adjacent before/after, straddling either end, empty at every boundary) plus a foreign buffer.
fn refs_byt<B: Backend>(cx: &mut Ctx, bk: &str) {
    let arena: &'static [u8] = Box::leak((0..64u8).collect::<Vec<_>>().into_boxed_slice());
    let foreign: &'static [u8] = Box::leak((0..64u8).collect::<Vec<_>>().into_boxed_slice());
    // (repr, ws, wl)
    for &(repr, ws, wl) in &[(Repr::Borrowed, 10usize, 30usize), (Repr::Borrowed, 10, 5), (Repr::Borrowed, 10, 0), (Repr::Heap, 0, 40), (Repr::HeapOffset, 0, 30), (Repr::Inline, 0, 12), (Repr::HeapShort, 0, 9)] {
        // build the value and find the memory it exposes
        let h: HipByt<'static, B> = match repr {
            Repr::Borrowed => HipByt::borrowed(&arena[ws..ws + wl]),
            _ => make_byt::<B>(&arena[ws..ws + wl], repr).unwrap(),
        };
        let whole: &[u8] = h.as_slice();
        let wstart = whole.as_ptr() as usize;
        // candidate generator: for borrowed values candidates come from the arena (so they can straddle); otherwise from the
        // value's own memory, plus foreign ones.
        let mut cands: Vec<(&[u8], &'static str)> = vec![];
        if repr == Repr::Borrowed {
            for a in 0..=arena.len() {
                for n in [0usize, 1, 2, 5, wl, wl + 1] {
                    if a + n <= arena.len() {
                        let kind = if a >= ws && a + n <= ws + wl { "inside" } else if a + n <= ws || a >= ws + wl { "outside" } else { "straddle" };
                        cands.push((&arena[a..a + n], kind));
                    }
                }
            }
        } else {
            for a in 0..=whole.len() {
                for b in a..=whole.len() {
                    if (b - a) % 3 == 0 || b == whole.len() || a == 0 || b - a == 24 || b - a == 23 {
                        cands.push((&whole[a..b], "inside"));
                    }
                }
            }
        }
        cands.push((&foreign[0..4], "foreign"));
        cands.push((&foreign[0..0], "foreign-empty"));
        cands.push((&[], "static-empty"));
        for (cand, kind) in cands {
            cx.sum.evaluations += 1;
            let out = quiet_catch(AssertUnwindSafe(|| h.try_slice_ref(cand).map(|r| r.as_slice().to_vec())));
            let panicked = quiet_catch(AssertUnwindSafe(|| { let _ = h.slice_ref(cand); })).is_err();
            let sstart = cand.as_ptr() as usize;
            let expected_inside = sstart >= wstart && sstart + cand.len() <= wstart + whole.len();
            let desc = format!("try_slice_ref ty=byt bk={} repr={:?} whole=@{}+{} cand=@{}{:+}+{} ({}) prof={}", bk, repr, wstart, whole.len(), wstart, sstart as i128 - wstart as i128, cand.len(), kind, profile());
            let coq_out = match &out {
                Ok(Some(bytes)) => {
                    if !expected_inside || &bytes[..] != cand {
                        cx.sum.violation(format!("{{\"what\":{},\"observed\":{},\"expected\":{}}}", jstr(&desc), jstr(&format!("Some({})", hex(bytes))), jstr(if expected_inside { "Some(candidate)" } else { "None" })));
                    }
                    cx.sum.count(&format!("slice_ref.some.{}", kind));
                    format!("(Some {})", coq_bytes(bytes))
                }
                Ok(None) => {
                    if expected_inside {
                        cx.sum.violation(format!("{{\"what\":{},\"observed\":\"None\",\"expected\":\"Some\"}}", jstr(&desc)));
                    }
                    cx.sum.count(&format!("slice_ref.none.{}", kind));
                    "None".to_string()
                }
                Err(msg) => {
                    cx.sum.violation(format!("{{\"what\":{},\"observed\":{},\"expected\":\"no panic\"}}", jstr(&desc), jstr(&format!("panic: {}", msg))));
                    "None".to_string()
                }
            };
            if panicked == expected_inside {
                cx.sum.violation(format!("{{\"what\":{},\"observed\":{},\"expected\":{}}}", jstr(&desc.replace("try_slice_ref", "slice_ref")), jstr(&format!("panicked={}", panicked)), jstr(&format!("panicked={}", !expected_inside))));
            }
            let case = format!("RefCase {} {} {} {} {} {}", coq_bytes(whole), wstart, sstart, cand.len(), coq_out, panicked);
            // addresses differ between runs; dedupe on the relative description instead
            let key = format!("R {} {} {} {} {}", whole.len(), sstart as i128 - wstart as i128, cand.len(), coq_out, panicked);
            if cx.seen.insert(key) {
                cx.ref_w.push(case);
                if kind != "inside" { cx.sum.sample(jstr(&format!("{} -> {}", desc, coq_out))); }
            }
        }
    }
}

fn coq_rerr(e: hipstr::common::RangeError) -> String {
    use hipstr::common::RangeError::*;
    match e {
        StartOverflows => "StartOverflows".into(),
        EndOverflows => "EndOverflows".into(),
        StartGreaterThanEnd { start, end } => format!("(RStartGreaterThanEnd {} {})", start, end),
        EndOutOfBounds { end, len } => format!("(REndOutOfBounds {} {})", end, len),
    }
}

/// Uniform view of the two vector kinds for the range operations.
trait RangeVec: Sized {
    const NAME: &'static str;
    const HAS_TRY: bool;
    fn mk(c: &[u8]) -> Self;
    fn cap(&self) -> usize;
    fn content(&self) -> Vec<u8>;
    fn try_drain_v(&mut self, r: (Bound<usize>, Bound<usize>)) -> Result<Vec<u8>, hipstr::common::RangeError>;
    fn drain_v(&mut self, r: (Bound<usize>, Bound<usize>)) -> Vec<u8>;
    fn try_efw(&mut self, r: (Bound<usize>, Bound<usize>)) -> Result<(), hipstr::common::RangeError>;
    fn efw(&mut self, r: (Bound<usize>, Bound<usize>));
    /// the `Copy`-specialised twin where the type has one (same contract)
    fn efw_copy(&mut self, r: (Bound<usize>, Bound<usize>)) { self.efw(r) }
}
impl RangeVec for InlineVec<u8, 16> {
    const NAME: &'static str = "inline16";
    const HAS_TRY: bool = false;
    fn mk(c: &[u8]) -> Self { InlineVec::from_slice_copy(c) }
    fn cap(&self) -> usize { self.capacity() }
    fn content(&self) -> Vec<u8> { self.as_slice().to_vec() }
    fn try_drain_v(&mut self, _r: (Bound<usize>, Bound<usize>)) -> Result<Vec<u8>, hipstr::common::RangeError> { unreachable!() }
    fn drain_v(&mut self, r: (Bound<usize>, Bound<usize>)) -> Vec<u8> { self.drain(r).collect() }
    fn try_efw(&mut self, _r: (Bound<usize>, Bound<usize>)) -> Result<(), hipstr::common::RangeError> { unreachable!() }
    fn efw(&mut self, r: (Bound<usize>, Bound<usize>)) { self.extend_from_within(r) }
    fn efw_copy(&mut self, r: (Bound<usize>, Bound<usize>)) { self.extend_from_within_copy(r) }
}
type Thin = ThinVec<u8, hipstr::vecs::thin::Reserved>;
impl RangeVec for Thin {
    const NAME: &'static str = "thin";
    const HAS_TRY: bool = true;
    fn mk(c: &[u8]) -> Self { ThinVec::from_slice_copy(c) }
    fn cap(&self) -> usize { usize::MAX }
    fn content(&self) -> Vec<u8> { self.as_slice().to_vec() }
    fn try_drain_v(&mut self, r: (Bound<usize>, Bound<usize>)) -> Result<Vec<u8>, hipstr::common::RangeError> { self.try_drain(r).map(|d| d.collect()) }
    fn drain_v(&mut self, r: (Bound<usize>, Bound<usize>)) -> Vec<u8> { self.drain(r).collect() }
    fn try_efw(&mut self, r: (Bound<usize>, Bound<usize>)) -> Result<(), hipstr::common::RangeError> { self.try_extend_from_within(r) }
    fn efw(&mut self, r: (Bound<usize>, Bound<usize>)) { self.extend_from_within(r) }
}

fn vec_ranges<V: RangeVec>(cx: &mut Ctx, lens: &[usize]) {
    for &len in lens {
        let content: Vec<u8> = (0..len as u8).map(|x| x + 100).collect();
        let bounds = bounds_for(len, &[]);
        for &s in &bounds {
            for &e in &bounds {
                for op in ["drain", "extend_from_within"] {
                    if op == "extend_from_within" && V::mk(&content).cap() < 2 * len { continue; }
                    cx.sum.evaluations += 1;
                    // oracle: Vec
                    let mut ov = content.clone();
                    let oracle: Option<Vec<u8>> = if op == "drain" {
                        quiet_catch(AssertUnwindSafe(|| ov.drain((s, e)).collect::<Vec<u8>>())).ok()
                    } else {
                        quiet_catch(AssertUnwindSafe(|| ov.extend_from_within((s, e)))).ok().map(|_| ov[len..].to_vec())
                    };
                    // panicking form
                    let mut v2 = V::mk(&content);
                    let pan = quiet_catch(AssertUnwindSafe(|| if op == "drain" { v2.drain_v((s, e)) } else { v2.efw((s, e)); v2.content()[len..].to_vec() }));
                    let after2 = v2.content();
                    if op == "extend_from_within" {
                        // the Copy twin must accept / reject and produce exactly the same
                        let mut v3 = V::mk(&content);
                        let pan3 = quiet_catch(AssertUnwindSafe(|| { v3.efw_copy((s, e)); v3.content()[len..].to_vec() }));
                        if pan3.is_ok() != pan.is_ok() || v3.content() != after2 {
                            cx.sum.violation(format!("{{\"what\":{},\"observed\":{},\"expected\":{}}}", jstr(&format!("extend_from_within_copy vec={} len={} range=({},{}) prof={}", V::NAME, len, show_bound(s), show_bound(e), profile())),
                                jstr(&format!("{} -> {}", if pan3.is_ok() { "accepted" } else { "panicked" }, hex(&v3.content()))), jstr(&format!("{} -> {}", if pan.is_ok() { "accepted" } else { "panicked" }, hex(&after2)))));
                        }
                    }
                    let desc = format!("{} vec={} len={} range=({},{}) prof={}", op, V::NAME, len, show_bound(s), show_bound(e), profile());
                    match (&pan, &oracle) {
                        (Ok(d), Some(o)) => {
                            if d != o || after2 != ov {
                                cx.sum.violation(format!("{{\"what\":{},\"observed\":{},\"expected\":{}}}", jstr(&desc), jstr(&format!("{} -> {}", hex(d), hex(&after2))), jstr(&format!("{} -> {}", hex(o), hex(&ov)))));
                            }
                        }
                        (Err(_), None) => {
                            if after2 != content {
                                cx.sum.violation(format!("{{\"what\":{},\"observed\":{},\"expected\":\"unchanged after range panic\"}}", jstr(&desc), jstr(&hex(&after2))));
                            }
                        }
                        (Ok(_), None) => cx.sum.violation(format!("{{\"what\":{},\"observed\":\"accepted\",\"expected\":\"Vec panics\"}}", jstr(&desc))),
                        (Err(m), Some(_)) => cx.sum.violation(format!("{{\"what\":{},\"observed\":{},\"expected\":\"Vec accepts\"}}", jstr(&desc), jstr(&format!("panic: {}", m)))),
                    }
                    let panicked = pan.is_err();
                    // try_ form
                    let coq_out = if V::HAS_TRY {
                        let mut v = V::mk(&content);
                        let out = quiet_catch(AssertUnwindSafe(|| if op == "drain" { v.try_drain_v((s, e)) } else { v.try_efw((s, e)).map(|_| v.content()[len..].to_vec()) }));
                        let after = v.content();
                        let tdesc = format!("try_{}", desc);
                        match &out {
                            Ok(Ok(d)) => {
                                if oracle.as_ref() != Some(d) || after != ov {
                                    cx.sum.violation(format!("{{\"what\":{},\"observed\":{},\"expected\":{}}}", jstr(&tdesc), jstr(&format!("Ok({}) -> {}", hex(d), hex(&after))), jstr(&format!("{:?} -> {}", oracle.as_ref().map(|x| hex(x)), hex(&ov)))));
                                }
                                cx.sum.count(&format!("{}.ok", op));
                                format!("(VOk {})", coq_bytes(d))
                            }
                            Ok(Err(er)) => {
                                if oracle.is_some() || after != content {
                                    cx.sum.violation(format!("{{\"what\":{},\"observed\":{},\"expected\":\"Vec accepts this range / unchanged\"}}", jstr(&tdesc), jstr(&format!("Err({:?}) -> {}", er, hex(&after)))));
                                }
                                cx.sum.count(&format!("{}.err.{}", op, coq_rerr(*er).split(' ').next().unwrap().trim_start_matches('(')));
                                format!("(VErr {})", coq_rerr(*er))
                            }
                            Err(msg) => {
                                cx.sum.violation(format!("{{\"what\":{},\"observed\":{},\"expected\":\"no panic\"}}", jstr(&tdesc), jstr(&format!("panic: {}", msg))));
                                "VPanic".to_string()
                            }
                        }
                    } else {
                        match &pan {
                            Ok(d) => { cx.sum.count(&format!("{}.ok", op)); format!("(VOk {})", coq_bytes(d)) }
                            Err(_) => { cx.sum.count(&format!("{}.panic", op)); "VErrAny".to_string() }
                        }
                    };
                    let case = format!("VecCase {} {} {} {} {}", coq_bytes(&content), coq_bound(s), coq_bound(e), coq_out, panicked);
                    if cx.seen.insert(case.clone()) {
                        cx.vec_w.push(case);
                        cx.sum.sample(jstr(&format!("{} -> {}", desc, coq_out)));
                    }
                }
            }
        }
    }
}

pub fn run(out_dir: &Path, tier: &str, _seed: u64) {
    silence_panics();
    let mut sum = Summary::default();
    let header = "From Hip Require Import Base Range Utf8 StrRange CasesRange.\n";
    let per = 400;
    let prof = profile();
    let mut cx = Ctx {
        sum: &mut sum,
        seen: HashSet::new(),
        slice_w: CaseWriter::new(out_dir, &format!("range_slice_{}", prof), header, "Eval vm_compute in (bad_indices check_slice cases 0).\n", per),
        ref_w: CaseWriter::new(out_dir, &format!("range_ref_{}", prof), header, "Eval vm_compute in (bad_indices check_ref cases 0).\n", per),
        vec_w: CaseWriter::new(out_dir, &format!("range_vec_{}", prof), header, "Eval vm_compute in (bad_indices check_vec cases 0).\n", per),
    };
    let thorough = tier == "thorough";
    let lens: Vec<usize> = if thorough { vec![0, 1, 2, 5, 22, 23, 24, 25, 40, 47, 255] } else { vec![0, 1, 5, 23, 24, 40] };
    let reprs = [Repr::Inline, Repr::Borrowed, Repr::Heap, Repr::HeapOffset, Repr::HeapShort];
    slices_byt::<Arc>(&mut cx, "arc", &lens, &reprs);
    slices_byt::<Rc>(&mut cx, "rc", &lens, &reprs);
    slices_byt::<Unique>(&mut cx, "unique", &lens, &reprs);
    slices_str::<Arc>(&mut cx, "arc", &lens, &reprs);
    slices_str::<Rc>(&mut cx, "rc", &lens, &reprs);
    slices_str::<Unique>(&mut cx, "unique", &lens, &reprs);
    refs_byt::<Arc>(&mut cx, "arc");
    refs_byt::<Rc>(&mut cx, "rc");
    refs_byt::<Unique>(&mut cx, "unique");
    let vlens: Vec<usize> = if thorough { vec![0, 1, 2, 3, 5, 7, 8] } else { vec![0, 1, 3, 5] };
    vec_ranges::<InlineVec<u8, 16>>(&mut cx, &vlens);
    vec_ranges::<Thin>(&mut cx, &vlens);
    cx.slice_w.flush();
    cx.ref_w.flush();
    cx.vec_w.flush();
    let files: Vec<String> = cx.slice_w.files.iter().chain(cx.ref_w.files.iter()).chain(cx.vec_w.files.iter()).cloned().collect();
    let distinct = (cx.slice_w.total + cx.ref_w.total + cx.vec_w.total) as u64;
    drop(cx);
    sum.files = files;
    sum.nontrivial = distinct;
    sum.notes.push(format!("profile={}", prof));
    sum.print();
}
