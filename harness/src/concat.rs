//! `concat` driver (C10): concat / concat_slices / join / join_slices of HipByt and HipStr, with well-behaved and with
//! adversarial iterators (the clone used for the length pass yields other pieces than the iterator used for the copy pass).
use crate::util::*;
use hipstr::bytes::HipByt;
use hipstr::string::HipStr;
use hipstr::{Arc, Backend, Rc, Unique};
use std::panic::AssertUnwindSafe;
use std::path::Path;

/// iterator whose clone (used by the library for the length pass) yields `first`, while itself yields `second`
struct Adv { first: std::rc::Rc<Vec<Vec<u8>>>, second: std::rc::Rc<Vec<Vec<u8>>>, pos: usize, is_clone: bool }
impl Clone for Adv { fn clone(&self) -> Self { Adv { first: self.first.clone(), second: self.second.clone(), pos: self.pos, is_clone: true } } }
impl Iterator for Adv {
    type Item = Piece;
    fn next(&mut self) -> Option<Piece> {
        let src = if self.is_clone { &self.first } else { &self.second };
        let r = src.get(self.pos).cloned().map(Piece);
        self.pos += 1;
        r
    }
}
struct Piece(Vec<u8>);
impl AsRef<[u8]> for Piece { fn as_ref(&self) -> &[u8] { &self.0 } }
impl AsRef<str> for Piece { fn as_ref(&self) -> &str { std::str::from_utf8(&self.0).unwrap() } }

/// item whose `as_ref` answers differently from call to call: the k-th call returns `vars[min(k, last)]`; every variant is the
/// visible prefix of a buffer that continues with bytes the caller never exposes (0xEE for bytes, '#' for text)
struct Flip { vars: std::rc::Rc<Vec<(Vec<u8>, usize)>>, calls: std::rc::Rc<std::cell::Cell<usize>>, handed: std::rc::Rc<std::cell::RefCell<Vec<Vec<u8>>>> }
impl Flip {
    fn get(&self) -> &[u8] {
        let k = self.calls.get(); self.calls.set(k + 1);
        let (buf, vis) = &self.vars[k.min(self.vars.len() - 1)];
        self.handed.borrow_mut().push(buf[..*vis].to_vec());
        &buf[..*vis]
    }
}
impl AsRef<[u8]> for Flip { fn as_ref(&self) -> &[u8] { self.get() } }
impl AsRef<str> for Flip { fn as_ref(&self) -> &str { std::str::from_utf8(self.get()).unwrap() } }
/// `shared`: the clone used for the length pass hands out the very same items (one call counter per item for the whole call);
/// otherwise every traversal gets fresh items (the counter restarts in each pass)
struct FlipIter { items: std::rc::Rc<Vec<(std::rc::Rc<Vec<(Vec<u8>, usize)>>, std::rc::Rc<std::cell::Cell<usize>>, std::rc::Rc<std::cell::RefCell<Vec<Vec<u8>>>>)>>, pos: usize, shared: bool }
impl Clone for FlipIter { fn clone(&self) -> Self { FlipIter { items: self.items.clone(), pos: self.pos, shared: self.shared } } }
impl Iterator for FlipIter {
    type Item = Flip;
    fn next(&mut self) -> Option<Flip> {
        let r = self.items.get(self.pos).map(|(v, c, h)| Flip { vars: v.clone(), calls: if self.shared { c.clone() } else { std::rc::Rc::new(std::cell::Cell::new(0)) }, handed: h.clone() });
        self.pos += 1;
        r
    }
}

/// can `out` be written as one handed-out slice per item, in order (with `sep` between them for join)?
fn decomposes(out: &[u8], handed: &[Vec<Vec<u8>>], sep: Option<&[u8]>, i: usize) -> bool {
    if i == handed.len() { return out.is_empty(); }
    let mut rest = out;
    if i > 0 { if let Some(sp) = sep { if !rest.starts_with(sp) { return false; } rest = &rest[sp.len()..]; } }
    handed[i].iter().any(|h| rest.starts_with(h) && decomposes(&rest[h.len()..], handed, sep, i + 1))
}

fn flip_one<B: Backend>(sum: &mut Summary, bk: &str, is_str: bool, join: bool, shared: bool, items: &[Vec<Vec<u8>>], sep: &[u8]) {
    sum.evaluations += 1;
    let secret: u8 = if is_str { b'#' } else { 0xEE };
    let cells: Vec<_> = items.iter().map(|vars| (std::rc::Rc::new(vars.iter().map(|v| { let mut b = v.clone(); b.extend(std::iter::repeat(secret).take(64)); (b, v.len()) }).collect::<Vec<_>>()),
        std::rc::Rc::new(std::cell::Cell::new(0usize)), std::rc::Rc::new(std::cell::RefCell::new(Vec::new())))).collect();
    let it = FlipIter { items: std::rc::Rc::new(cells.clone()), pos: 0, shared };
    let errs_before = crate::alloc::snap().errors;
    let r: Result<Vec<u8>, String> = quiet_catch(AssertUnwindSafe(|| {
        if is_str { let h: HipStr<'static, B> = if join { HipStr::join(it, std::str::from_utf8(sep).unwrap()) } else { HipStr::concat(it) }; h.verif_bytes().as_slice().to_vec() }
        else { let h: HipByt<'static, B> = if join { HipByt::join(it, sep) } else { HipByt::concat(it) }; h.as_slice().to_vec() }
    }));
    let desc = format!("{} with an AsRef that changes its answer from call to call ({}) ty={} bk={} items={:?} sep={:?} prof={}", if join { "join" } else { "concat" },
        if shared { "same items in both passes" } else { "fresh items per pass" }, if is_str { "str" } else { "byt" }, bk,
        items.iter().map(|vs| vs.iter().map(|v| hex(v)).collect::<Vec<_>>()).collect::<Vec<_>>(), hex(sep), profile());
    if crate::alloc::snap().errors != errs_before {
        sum.violation(format!("{{\"what\":{},\"observed\":{},\"expected\":\"no write outside the destination block\"}}", jstr(&desc), jstr(&format!("the allocator monitor reports {}", crate::alloc::error_detail()))));
    }
    match r {
        Ok(bytes) => {
            let handed: Vec<Vec<Vec<u8>>> = cells.iter().map(|c| c.2.borrow().clone()).collect();
            if is_str && std::str::from_utf8(&bytes).is_err() { sum.violation(format!("{{\"what\":{},\"observed\":{},\"expected\":\"panic or well-formed UTF-8\"}}", jstr(&desc), jstr(&format!("HipStr holding ill-formed UTF-8 {}", hex(&bytes))))); }
            else if !bytes.is_empty() && !decomposes(&bytes, &handed, if join { Some(sep) } else { None }, 0) {
                sum.violation(format!("{{\"what\":{},\"observed\":{},\"expected\":\"panic, or one of the slices each item handed out, in order\"}}", jstr(&desc), jstr(&format!("Ok({}) which is not made of slices the items handed out{}", hex(&bytes), if bytes.contains(&secret) { " (it contains bytes the caller never exposed)" } else { "" }))));
            }
            sum.count("flip.ok");
        }
        Err(_) => { sum.count("flip.panic"); }
    }
}

/// the separator of join / join_slices is an `impl AsRef` too: one that answers differently from call to call
fn flip_sep<B: Backend>(sum: &mut Summary, bk: &str, is_str: bool, slices_form: bool, pieces: &[Vec<u8>], seps: &[Vec<u8>]) {
    sum.evaluations += 1;
    let secret: u8 = if is_str { b'#' } else { 0xEE };
    let vars = std::rc::Rc::new(seps.iter().map(|v| { let mut b = v.clone(); b.extend(std::iter::repeat(secret).take(64)); (b, v.len()) }).collect::<Vec<_>>());
    let handed = std::rc::Rc::new(std::cell::RefCell::new(Vec::new()));
    let sep = Flip { vars, calls: std::rc::Rc::new(std::cell::Cell::new(0)), handed: handed.clone() };
    let errs_before = crate::alloc::snap().errors;
    let r: Result<Vec<u8>, String> = quiet_catch(AssertUnwindSafe(|| {
        let refs: Vec<&[u8]> = pieces.iter().map(|p| &p[..]).collect();
        if is_str {
            let strs: Vec<&str> = pieces.iter().map(|p| std::str::from_utf8(p).unwrap()).collect();
            let h: HipStr<'static, B> = HipStr::join(strs.iter().copied(), sep);   // (HipStr::join_slices takes a plain &str separator)
            h.verif_bytes().as_slice().to_vec()
        } else {
            let h: HipByt<'static, B> = if slices_form { HipByt::join_slices(&refs, sep) } else { HipByt::join(refs.iter().copied(), sep) };
            h.as_slice().to_vec()
        }
    }));
    let desc = format!("{} with a SEPARATOR whose AsRef changes its answer from call to call ty={} bk={} pieces={:?} separator answers={:?} prof={}", if slices_form { "join_slices" } else { "join" },
        if is_str { "str" } else { "byt" }, bk, pieces.iter().map(|p| hex(p)).collect::<Vec<_>>(), seps.iter().map(|p| hex(p)).collect::<Vec<_>>(), profile());
    if crate::alloc::snap().errors != errs_before { sum.violation(format!("{{\"what\":{},\"observed\":{},\"expected\":\"no write outside the destination block\"}}", jstr(&desc), jstr(&format!("the allocator monitor reports {}", crate::alloc::error_detail())))); }
    if let Ok(bytes) = r {
        // acceptable: the pieces joined by ONE of the answers the separator gave (each gap may use a different answer)
        let answers: Vec<Vec<u8>> = handed.borrow().clone();
        fn ok(out: &[u8], pieces: &[Vec<u8>], i: usize, answers: &[Vec<u8>]) -> bool {
            if !out.starts_with(&pieces[i]) { return false; }
            let rest = &out[pieces[i].len()..];
            if i + 1 == pieces.len() { return rest.is_empty(); }
            answers.iter().any(|a| rest.starts_with(a) && ok(&rest[a.len()..], pieces, i + 1, answers))
        }
        let fine = if pieces.is_empty() { bytes.is_empty() } else { ok(&bytes, pieces, 0, &answers) };
        if is_str && std::str::from_utf8(&bytes).is_err() { sum.violation(format!("{{\"what\":{},\"observed\":{},\"expected\":\"panic or well-formed UTF-8\"}}", jstr(&desc), jstr(&format!("HipStr holding ill-formed UTF-8 {}", hex(&bytes))))); }
        else if !fine { sum.violation(format!("{{\"what\":{},\"observed\":{},\"expected\":\"panic, or the pieces joined by answers the separator really gave\"}}", jstr(&desc), jstr(&format!("Ok({}){}", hex(&bytes), if bytes.contains(&secret) { " (it contains bytes the caller never exposed)" } else { "" })))); }
        sum.count("flipsep.ok");
    } else { sum.count("flipsep.panic"); }
}

fn pieces_coq(ps: &[Vec<u8>]) -> String { format!("[{}]", ps.iter().map(|p| coq_bytes(p)).collect::<Vec<_>>().join("; ")) }

fn one<B: Backend>(sum: &mut Summary, w: &mut CaseWriter, seen: &mut std::collections::HashSet<String>, bk: &str, is_str: bool, join: bool, first: &[Vec<u8>], second: &[Vec<u8>], sep: &[u8]) {
    sum.evaluations += 1;
    let adv = Adv { first: std::rc::Rc::new(first.to_vec()), second: std::rc::Rc::new(second.to_vec()), pos: 0, is_clone: false };
    let errs_before = crate::alloc::snap().errors;
    let r: Result<(Vec<u8>, bool, bool), String> = quiet_catch(AssertUnwindSafe(|| {
        if is_str {
            let h: HipStr<'static, B> = if join { HipStr::join(adv, std::str::from_utf8(sep).unwrap()) } else { HipStr::concat(adv) };
            (h.as_bytes().to_vec(), h.verif_bytes().is_normalized(), h.is_inline())
        } else {
            let h: HipByt<'static, B> = if join { HipByt::join(adv, sep) } else { HipByt::concat(adv) };
            (h.as_slice().to_vec(), h.is_normalized(), h.is_inline())
        }
    }));
    let same = first == second;
    let std_result: Vec<u8> = if join { second.join(sep) } else { second.concat() };
    // C03 inside multi-piece construction: whatever the outcome (value or panic), nothing was written outside a block's requested size
    if crate::alloc::snap().errors != errs_before {
        sum.violation(format!("{{\"what\":{},\"observed\":{},\"expected\":\"no write outside the destination block\"}}",
            jstr(&format!("{} ty={} bk={} first={:?} second={:?} sep={:?} prof={}", if join { "join" } else { "concat" }, if is_str { "str" } else { "byt" }, bk, first.iter().map(|p| p.len()).collect::<Vec<_>>(), second.iter().map(|p| p.len()).collect::<Vec<_>>(), sep.len(), profile())),
            jstr(&format!("the allocator monitor reports {}", crate::alloc::error_detail()))));
    }
    let desc = format!("{} ty={} bk={} first={:?} second={:?} sep={:?} prof={}", if join { "join" } else { "concat" }, if is_str { "str" } else { "byt" }, bk,
        first.iter().map(|p| p.len()).collect::<Vec<_>>(), second.iter().map(|p| p.len()).collect::<Vec<_>>(), sep.len(), profile());
    let out = match &r {
        Ok((bytes, norm, inline)) => {
            // oracle: exactly std's result for the pieces actually copied (or empty when the length pass saw nothing)
            let first_total: usize = first.iter().map(|p| p.len()).sum::<usize>() + if join && !first.is_empty() { (first.len() - 1) * sep.len() } else { 0 };
            let acceptable = *bytes == std_result || (bytes.is_empty() && (first_total == 0 || first.is_empty()));
            if !acceptable { sum.violation(format!("{{\"what\":{},\"observed\":{},\"expected\":{}}}", jstr(&desc), jstr(&format!("Ok({})", hex(bytes))), jstr(&format!("panic or {}", hex(&std_result))))); }
            if same && *bytes != std_result { sum.violation(format!("{{\"what\":{},\"observed\":{},\"expected\":{}}}", jstr(&desc), jstr(&hex(bytes)), jstr(&hex(&std_result)))); }
            if !*norm || (bytes.len() <= 23) != *inline { sum.violation(format!("{{\"what\":{},\"observed\":\"result not in normalised representation\",\"expected\":\"normalised\"}}", jstr(&desc))); }
            if is_str && std::str::from_utf8(bytes).is_err() { sum.violation(format!("{{\"what\":{},\"observed\":\"ill-formed UTF-8\",\"expected\":\"valid\"}}", jstr(&desc))); }
            sum.count(if same { "ok.same" } else { "ok.adversarial" });
            format!("(COk {})", coq_bytes(bytes))
        }
        Err(_) => {
            if same { sum.violation(format!("{{\"what\":{},\"observed\":\"panic\",\"expected\":{}}}", jstr(&desc), jstr(&hex(&std_result)))); }
            sum.count("panic.adversarial");
            "CPan".to_string()
        }
    };
    let case = format!("CCase {} {} {} {} {}", join, pieces_coq(first), pieces_coq(second), coq_bytes(sep), out);
    if seen.insert(case.clone()) { w.push(case); sum.sample(jstr(&format!("{} -> {}", desc, out))); }
}

fn slices_forms<B: Backend>(sum: &mut Summary, bk: &str, ps: &[Vec<u8>], sep: &[u8], is_str: bool) {
    sum.evaluations += 1;
    let refs: Vec<&[u8]> = ps.iter().map(|p| &p[..]).collect();
    let exp_c = ps.concat(); let exp_j = ps.join(sep);
    let view = |h: &HipByt<'static, B>| -> (Vec<u8>, bool) { (h.as_slice().to_vec(), h.is_normalized() && (h.len() <= 23) == h.is_inline()) };
    let ((c, cn), (j, jn)) = if is_str {
        let strs: Vec<&str> = ps.iter().map(|p| std::str::from_utf8(p).unwrap()).collect();
        (view(HipStr::<B>::concat_slices(&strs).verif_bytes()), view(HipStr::<B>::join_slices(&strs, std::str::from_utf8(sep).unwrap()).verif_bytes()))
    } else {
        (view(&HipByt::<B>::concat_slices(&refs)), view(&HipByt::<B>::join_slices(&refs, sep)))
    };
    if !cn { sum.violation(format!("{{\"what\":{},\"observed\":\"result not in normalised representation\",\"expected\":\"inline up to 23 bytes, heap above\"}}", jstr(&format!("concat_slices ty={} bk={} {:?}", if is_str { "str" } else { "byt" }, bk, ps.iter().map(|p| p.len()).collect::<Vec<_>>())))); }
    if !jn { sum.violation(format!("{{\"what\":{},\"observed\":\"result not in normalised representation\",\"expected\":\"inline up to 23 bytes, heap above\"}}", jstr(&format!("join_slices ty={} bk={} {:?} sep={}", if is_str { "str" } else { "byt" }, bk, ps.iter().map(|p| p.len()).collect::<Vec<_>>(), sep.len())))); }
    if c != exp_c { sum.violation(format!("{{\"what\":{},\"observed\":{},\"expected\":{}}}", jstr(&format!("concat_slices bk={} {:?}", bk, ps.iter().map(|p| p.len()).collect::<Vec<_>>())), jstr(&hex(&c)), jstr(&hex(&exp_c)))); }
    if j != exp_j { sum.violation(format!("{{\"what\":{},\"observed\":{},\"expected\":{}}}", jstr(&format!("join_slices bk={} {:?}", bk, ps.iter().map(|p| p.len()).collect::<Vec<_>>())), jstr(&hex(&j)), jstr(&hex(&exp_j)))); }
}

fn drive<B: Backend>(sum: &mut Summary, w: &mut CaseWriter, seen: &mut std::collections::HashSet<String>, bk: &str, tier: &str, seed: u64) {
    let lens: &[usize] = if tier == "thorough" { &[0, 1, 2, 11, 12, 23, 24, 30] } else { &[0, 1, 12, 24] };
    let piece = |n: usize, salt: u8| -> Vec<u8> { (0..n).map(|i| b'a' + ((i as u8).wrapping_add(salt) % 26)).collect() };
    // all piece lists of 0..=3 pieces over the length alphabet (exhaustive over length shapes)
    let mut shapes: Vec<Vec<usize>> = vec![vec![]];
    for a in lens { shapes.push(vec![*a]); for b in lens { shapes.push(vec![*a, *b]); if tier == "thorough" || (*a <= 12 && *b <= 12) { for c in lens { shapes.push(vec![*a, *b, *c]); } } } }
    let seps: Vec<Vec<u8>> = vec![vec![], b",".to_vec(), b", ".to_vec(), b" | ".to_vec()];
    // totals of 19..=26 bytes split in two or three pieces: the window around the inline capacity, whatever the separator length
    for total in 19..=26usize { for k in [1usize, 5, 11] { if k < total { shapes.push(vec![k, total - k]); if k + 2 < total { shapes.push(vec![k, 1, total - k - 1]); } } } }
    for is_str in [false, true] {
        for sh in &shapes {
            let ps: Vec<Vec<u8>> = sh.iter().enumerate().map(|(i, n)| piece(*n, i as u8 * 7)).collect();
            one::<B>(sum, w, seen, bk, is_str, false, &ps, &ps, &[]);
            for sep in &seps { one::<B>(sum, w, seen, bk, is_str, true, &ps, &ps, sep); slices_forms::<B>(sum, bk, &ps, sep, is_str); }
        }
        // adversarial second traversals: scripted mutations of the first
        let mut rng = Rng::new(seed ^ 0xC0FFEE);
        let n_adv = if tier == "thorough" { 4000 } else { 600 };
        for _ in 0..n_adv {
            let sh = rng.pick(&shapes).clone();
            let first: Vec<Vec<u8>> = sh.iter().enumerate().map(|(i, n)| piece(*n, i as u8 * 7)).collect();
            let mut second = first.clone();
            match rng.below(7) {
                0 => { if !second.is_empty() { let i = rng.below(second.len()); let n = second[i].len(); second[i] = piece(n / 2, 3); } }           // shorter piece
                1 => { if !second.is_empty() { let i = rng.below(second.len()); let n = second[i].len(); second[i] = piece(n + 1 + rng.below(30), 5); } } // longer piece
                2 => { second.pop(); }                                                                                                   // fewer items
                3 => { second.push(piece(*rng.pick(lens), 9)); }                                                                      // more items
                4 => { for p in second.iter_mut() { for b in p.iter_mut() { *b = b'z'; } } }                                           // same lengths, other content
                5 => { second.clear(); }
                _ => { second = rng.pick(&shapes).iter().enumerate().map(|(i, n)| piece(*n, i as u8 * 11)).collect(); }              // unrelated
            }
            let join = rng.chance(1, 2);
            let sep = if join { rng.pick(&seps).clone() } else { vec![] };
            one::<B>(sum, w, seen, bk, is_str, join, &first, &second, &sep);
        }
        // unstable AsRef: per item a list of answers (call 1, call 2, call 3...)
        let words: Vec<Vec<u8>> = if is_str { vec![b"ab".to_vec(), "\u{e9}\u{20ac}".as_bytes().to_vec(), "\u{1F980}\u{1F980}\u{1F980}\u{1F980}".as_bytes().to_vec(), b"X".to_vec(), vec![], "a long enough piece of text \u{e9}".as_bytes().to_vec()] }
            else { vec![b"ab".to_vec(), piece(7, 1), piece(30, 2), b"X".to_vec(), vec![], piece(16, 3)] };
        let n_flip = if tier == "thorough" { 3000 } else { 500 };
        for _ in 0..n_flip {
            let n_items = 1 + rng.below(3);
            let items: Vec<Vec<Vec<u8>>> = (0..n_items).map(|_| { let k = 1 + rng.below(3); let stable = rng.chance(1, 3); let a = rng.pick(&words).clone(); (0..k).map(|j| if stable || (j < 2 && rng.chance(1, 2)) { a.clone() } else { rng.pick(&words).clone() }).collect() }).collect();
            let join = rng.chance(1, 2);
            let sep = if join { rng.pick(&seps).clone() } else { vec![] };
            flip_one::<B>(sum, bk, is_str, join, rng.chance(1, 2), &items, &sep);
        }
        for _ in 0..(n_flip / 4) {
            let n_items = 2 + rng.below(3);
            let pieces: Vec<Vec<u8>> = (0..n_items).map(|_| rng.pick(&words).clone()).collect();
            let k = 1 + rng.below(3);
            let seps_: Vec<Vec<u8>> = (0..k).map(|_| if is_str { rng.pick(&[&b"--"[..], b"!", b"", "\u{e9}".as_bytes(), b", "]).to_vec() } else { rng.pick(&[&b"--"[..], b"!", b"", b"\x00\x01\x02", b", "]).to_vec() }).collect();
            flip_sep::<B>(sum, bk, is_str, rng.chance(1, 2), &pieces, &seps_);
        }
    }
}

/// repeat (the third builder of the property): every count 0..=30 on short and long sources in the three representations, against
/// std; the sources are prefixes of a longer text so that an over-read shows as foreign bytes
fn repeats<B: Backend>(sum: &mut Summary, bk: &str) {
    let text: &'static str = "abcdefghijklmnopqrstuvwxyz0123456789ABCDEFGHIJKLMNOPQRSTUVWXYZ";
    let utext: &'static str = "a\u{e9}\u{e9}\u{20ac}\u{1F980}z and then some more text to make it long";
    for len in [0usize, 1, 2, 3, 5, 8, 11, 12, 23, 24, 30] {
        for n in 0..=30usize {
            if len * n > 2000 { continue; }
            for rep in ["borrowed", "owned"] {
                sum.evaluations += 1;
                let src = &text.as_bytes()[..len];
                let h: HipByt<'static, B> = if rep == "borrowed" { HipByt::borrowed(src) } else { HipByt::from(src) };
                let r = h.repeat(n);
                let want = src.repeat(n);
                if r.as_slice() != &want[..] || !r.is_normalized() || (r.is_allocated() && want.len() <= 23) {
                    sum.violation(format!("{{\"what\":{},\"observed\":{},\"expected\":{}}}", jstr(&format!("repeat ty=byt bk={} source={} ({} bytes, {}) n={} prof={}", bk, hex(src), len, rep, n, profile())), jstr(&format!("{} normalized={} inline={}", hex(r.as_slice()), r.is_normalized(), r.is_inline())), jstr(&hex(&want))));
                }
            }
        }
    }
    for cut in [1usize, 3, 5, 8] {      // prefixes of a text with multi-byte characters right after the cut
        for n in 0..=12usize {
            sum.evaluations += 1;
            let src = &utext[..cut];
            let r = HipStr::<B>::borrowed(src).repeat(n);
            if r.as_str() != src.repeat(n) || std::str::from_utf8(r.as_bytes()).is_err() {
                sum.violation(format!("{{\"what\":{},\"observed\":{},\"expected\":{}}}", jstr(&format!("repeat ty=str bk={} source={:?} n={} prof={}", bk, src, n, profile())), jstr(&hex(r.as_bytes())), jstr(&hex(src.repeat(n).as_bytes()))));
            }
        }
    }
}

pub fn run(out_dir: &Path, tier: &str, seed: u64, _rest: &[String]) {
    silence_panics();
    let mut sum = Summary::default();
    let header = "From Hip Require Import Base Utf8 CasesRange Concat CasesConcat.\n";
    let mut w = CaseWriter::new(out_dir, &format!("concat_{}", profile()), header, "Eval vm_compute in (bad_indices check_concat cases 0).\n", 500);
    let mut seen = std::collections::HashSet::new();
    drive::<Arc>(&mut sum, &mut w, &mut seen, "arc", tier, seed);
    drive::<Rc>(&mut sum, &mut w, &mut seen, "rc", tier, seed);
    drive::<Unique>(&mut sum, &mut w, &mut seen, "unique", tier, seed);
    repeats::<Arc>(&mut sum, "arc"); repeats::<Rc>(&mut sum, "rc"); repeats::<Unique>(&mut sum, "unique");
    w.flush();
    sum.files = w.files.clone();
    sum.nontrivial = w.total as u64;
    sum.notes.push(format!("profile={}", profile()));
    sum.print();
}
