//! `adversary` driver (C17 b): the SAFE entry points that take a caller-implemented trait object, called with implementations
//! written in safe code that change their answers from call to call (`RangeBounds` whose bounds differ between two queries).
//! "Every safe counterpart validates its arguments" must hold for these too: whatever the answers, the result is an error, a
//! panic, or exactly the sub-range designated by answers the bounds really gave -- never bytes outside the value, never an
//! element owned twice.
use crate::util::*;
use hipstr::bytes::HipByt;
use hipstr::string::HipStr;
use hipstr::vecs::{InlineVec, ThinVec};
use hipstr::{Arc, Backend, Rc, Unique};
use std::cell::{Cell, RefCell};
use std::ops::{Bound, RangeBounds};
use std::panic::AssertUnwindSafe;
use std::path::Path;

/// bounds that answer `starts[k]` / `ends[k]` at their k-th query (the last answer repeats)
struct FlipRange { starts: Vec<Bound<usize>>, ends: Vec<Bound<usize>>, i: Cell<usize>, j: Cell<usize>, given: RefCell<(Vec<Bound<usize>>, Vec<Bound<usize>>)> }
impl FlipRange {
    fn new(starts: Vec<Bound<usize>>, ends: Vec<Bound<usize>>) -> Self { FlipRange { starts, ends, i: Cell::new(0), j: Cell::new(0), given: RefCell::new((vec![], vec![])) } }
}
fn bref(b: &Bound<usize>) -> Bound<&usize> { match b { Bound::Included(x) => Bound::Included(x), Bound::Excluded(x) => Bound::Excluded(x), Bound::Unbounded => Bound::Unbounded } }
impl RangeBounds<usize> for &FlipRange {
    fn start_bound(&self) -> Bound<&usize> { let k = self.i.get(); self.i.set(k + 1); let b = &self.starts[k.min(self.starts.len() - 1)]; self.given.borrow_mut().0.push(*b); bref(b) }
    fn end_bound(&self) -> Bound<&usize> { let k = self.j.get(); self.j.set(k + 1); let b = &self.ends[k.min(self.ends.len() - 1)]; self.given.borrow_mut().1.push(*b); bref(b) }
}
/// the concrete ranges (a, b) the given answers can designate within `len`
fn designated(fr: &FlipRange, len: usize) -> Vec<(usize, usize)> {
    let g = fr.given.borrow();
    let ss: Vec<Option<usize>> = if g.0.is_empty() { vec![] } else { g.0.iter().map(|b| match b { Bound::Included(x) => Some(*x), Bound::Excluded(x) => x.checked_add(1), Bound::Unbounded => Some(0) }).collect() };
    let es: Vec<Option<usize>> = g.1.iter().map(|b| match b { Bound::Included(x) => x.checked_add(1), Bound::Excluded(x) => Some(*x), Bound::Unbounded => Some(len) }).collect();
    let mut out = vec![];
    for s in ss.iter().flatten() { for e in es.iter().flatten() { if s <= e && *e <= len { out.push((*s, *e)); } } }
    out
}
fn show(fr: &FlipRange) -> String { format!("start answers {:?}, end answers {:?}", fr.starts, fr.ends) }

fn scripts(len: usize, rng: &mut Rng, n: usize) -> Vec<FlipRange> {
    let vals = [0usize, 1, 5, len / 2, len.saturating_sub(1), len, len + 1, len + 48, usize::MAX];
    let mut out = vec![];
    // hand-written: valid at the first query, out of range at the second (and the converse)
    for (a, b) in [(len, len + 48), (len, usize::MAX), (len / 2, len + 1), (len + 48, len)] {
        out.push(FlipRange::new(vec![Bound::Included(0)], vec![Bound::Excluded(a), Bound::Excluded(b)]));
        out.push(FlipRange::new(vec![Bound::Included(0), Bound::Included(0)], vec![Bound::Included(a.saturating_sub(1)), Bound::Included(b.saturating_sub(1))]));
        out.push(FlipRange::new(vec![Bound::Included(a.min(len)), Bound::Included(b)], vec![Bound::Unbounded]));
        out.push(FlipRange::new(vec![Bound::Included(1), Bound::Included(len)], vec![Bound::Excluded(a), Bound::Excluded(b), Bound::Excluded(1)]));
    }
    for _ in 0..n {
        let mk = |rng: &mut Rng| -> Vec<Bound<usize>> { (0..1 + rng.below(3)).map(|_| { let v = *rng.pick(&vals); match rng.below(5) { 0 => Bound::Unbounded, 1 | 2 => Bound::Included(v), _ => Bound::Excluded(v) } }).collect() };
        out.push(FlipRange::new(mk(rng), mk(rng)));
    }
    out
}

fn bad(sum: &mut Summary, what: String, observed: String, expected: &str) {
    sum.violation(format!("{{\"what\":{},\"observed\":{},\"expected\":{}}}", jstr(&what), jstr(&observed), jstr(expected)));
}

fn bytes_like<B: Backend>(sum: &mut Summary, bk: &str, rng: &mut Rng, n: usize) {
    let text: &'static str = "0123456789abcdefghijklmnopqrstuvwxyzABCDEFGHIJKLMNOPQRSTUVWXYZ";
    for (repr, lo, hi) in [("inline", 0usize, 12usize), ("borrowed", 0, 40), ("heap", 0, 32), ("heap-view", 8, 40)] {
        let src_b: HipByt<'static, B> = match repr { "inline" => HipByt::from(&text.as_bytes()[lo..hi]), "borrowed" => HipByt::borrowed(&text.as_bytes()[lo..hi]), "heap" => HipByt::from(&text.as_bytes()[lo..hi]), _ => HipByt::<B>::from(text.as_bytes()).slice(lo..hi) };
        let src_s: HipStr<'static, B> = match repr { "inline" => HipStr::from(&text[lo..hi]), "borrowed" => HipStr::borrowed(&text[lo..hi]), "heap" => HipStr::from(&text[lo..hi]), _ => HipStr::<B>::from(text).slice(lo..hi) };
        let want = &text.as_bytes()[lo..hi];
        let len = want.len();
        for fr in scripts(len, rng, n) {
            for (ty, method) in [("byt", "try_slice"), ("byt", "slice"), ("str", "try_slice"), ("str", "slice")] {
                sum.evaluations += 1;
                fr.i.set(0); fr.j.set(0); *fr.given.borrow_mut() = (vec![], vec![]);
                let what = format!("adversary {}::{} on a {} value of {} bytes bk={} with bounds that change between queries: {} prof={}", if ty == "byt" { "HipByt" } else { "HipStr" }, method, repr, len, bk, show(&fr), profile());
                breadcrumb(&what);
                let r: Result<Option<Vec<u8>>, String> = quiet_catch(AssertUnwindSafe(|| match (ty, method) {
                    ("byt", "try_slice") => src_b.try_slice(&fr).ok().map(|h| h.as_slice().to_vec()),
                    ("byt", _) => Some(src_b.slice(&fr).as_slice().to_vec()),
                    ("str", "try_slice") => src_s.try_slice(&fr).ok().map(|h| h.as_bytes().to_vec()),
                    _ => Some(src_s.slice(&fr).as_bytes().to_vec()),
                }));
                match r {
                    Ok(Some(got)) => {
                        let ok = designated(&fr, len).iter().any(|&(a, b)| got == want[a..b]);
                        if !ok { bad(sum, what, format!("Ok({}) = {} bytes out of a {}-byte value; answers given: {:?}", hex(&got), got.len(), len, fr.given.borrow()), "an error, a panic, or the sub-range designated by answers the bounds gave"); }
                        sum.count("slice.ok");
                    }
                    Ok(None) => sum.count("slice.err"),
                    Err(_) => sum.count("slice.panic"),
                }
            }
        }
    }
}

fn vec_like(sum: &mut Summary, rng: &mut Rng, n: usize) {
    let items: Vec<String> = (0..6).map(|i| format!("element number {} (heap allocated)", i)).collect();
    for fr in scripts(items.len(), rng, n) {
        for kind in ["thin", "inline"] {
            for method in ["drain", "extend_from_within"] {
                sum.evaluations += 1;
                fr.i.set(0); fr.j.set(0); *fr.given.borrow_mut() = (vec![], vec![]);
                let what = format!("adversary {}::{} on 6 String elements with bounds that change between queries: {} prof={}", if kind == "thin" { "ThinVec" } else { "InlineVec<_, 16>" }, method, show(&fr), profile());
                breadcrumb(&what);
                // (drained, remaining)
                let r: Result<(Vec<String>, Vec<String>), String> = quiet_catch(AssertUnwindSafe(|| {
                    if kind == "thin" {
                        let mut v: ThinVec<String> = ThinVec::new(); for x in &items { v.push(x.clone()); }
                        let d: Vec<String> = if method == "drain" { v.drain(&fr).collect() } else { v.extend_from_within(&fr); vec![] };
                        (d, v.as_slice().to_vec())
                    } else {
                        let mut v: InlineVec<String, 16> = InlineVec::new(); for x in &items { v.push(x.clone()); }
                        let d: Vec<String> = if method == "drain" { v.drain(&fr).collect() } else { v.extend_from_within(&fr); vec![] };
                        (d, v.as_slice().to_vec())
                    }
                }));
                if let Ok((d, rest)) = r {
                    let ok = designated(&fr, items.len()).iter().any(|&(a, b)| if method == "drain" { d == items[a..b] && rest == [&items[..a], &items[b..]].concat() } else { rest == [&items[..], &items[a..b]].concat() });
                    if !ok { bad(sum, what, format!("drained {:?}, vector now {:?}; answers given: {:?}", d, rest, fr.given.borrow()), "an error, a panic, or the effect of the sub-range designated by answers the bounds gave"); }
                    sum.count("vec.ok");
                } else { sum.count("vec.panic"); }
            }
        }
    }
}

pub fn run(_out_dir: &Path, tier: &str, seed: u64, _rest: &[String]) {
    silence_panics();
    let mut sum = Summary::default();
    let mut rng = Rng::new(seed ^ 0xAD7E);
    let n = if tier == "thorough" { 400 } else { 60 };
    bytes_like::<Arc>(&mut sum, "arc", &mut rng, n);
    bytes_like::<Rc>(&mut sum, "rc", &mut rng, n);
    bytes_like::<Unique>(&mut sum, "unique", &mut rng, n);
    vec_like(&mut sum, &mut rng, n);
    sum.nontrivial = sum.evaluations;
    sum.samples.push(jstr("RangeBounds implementations answering differently at each query x {HipByt, HipStr} x {slice, try_slice} x {inline, borrowed, heap, heap-view} x 3 backends; {ThinVec, InlineVec} x {drain, extend_from_within}"));
    sum.notes.push(format!("profile={} allocator_errors={}", profile(), crate::alloc::error_detail()));
    sum.print();
}
