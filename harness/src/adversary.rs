//! `adversary` driver (C17 b): the SAFE entry points that take a caller-implemented trait object, called with implementations
//! written in safe code that change their answers from call to call (`RangeBounds` whose bounds differ between two queries).
//! "Every safe counterpart validates its arguments" must hold for these too: whatever the answers, the result is an error, a
//! panic, or exactly the sub-range designated by answers the bounds really gave -- never bytes outside the value, never an
//! element owned twice.
use crate::util::*;
use hipstr::bytes::HipByt;
use hipstr::string::HipStr;
use hipstr::vecs::{InlineVec, ThinVec};
use hipstr::{Arc, Backend, Rc, Unique};
use std::cell::{Cell, RefCell};
use std::ops::{Bound, RangeBounds};
use std::panic::AssertUnwindSafe;
use std::path::Path;

/// bounds that answer `starts[k]` / `ends[k]` at their k-th query (the last answer repeats)
struct FlipRange { starts: Vec<Bound<usize>>, ends: Vec<Bound<usize>>, i: Cell<usize>, j: Cell<usize>, given: RefCell<(Vec<Bound<usize>>, Vec<Bound<usize>>)> }
impl FlipRange {
    fn new(starts: Vec<Bound<usize>>, ends: Vec<Bound<usize>>) -> Self { FlipRange { starts, ends, i: Cell::new(0), j: Cell::new(0), given: RefCell::new((vec![], vec![])) } }
}
fn bref(b: &Bound<usize>) -> Bound<&usize> { match b { Bound::Included(x) => Bound::Included(x), Bound::Excluded(x) => Bound::Excluded(x), Bound::Unbounded => Bound::Unbounded } }
impl RangeBounds<usize> for &FlipRange {
    fn start_bound(&self) -> Bound<&usize> { let k = self.i.get(); self.i.set(k + 1); let b = &self.starts[k.min(self.starts.len() - 1)]; self.given.borrow_mut().0.push(*b); bref(b) }
    fn end_bound(&self) -> Bound<&usize> { let k = self.j.get(); self.j.set(k + 1); let b = &self.ends[k.min(self.ends.len() - 1)]; self.given.borrow_mut().1.push(*b); bref(b) }
}
/// the concrete ranges (a, b) the given answers can designate within `len`
fn designated(fr: &FlipRange, len: usize) -> Vec<(usize, usize)> {
    let g = fr.given.borrow();
    let ss: Vec<Option<usize>> = if g.0.is_empty() { vec![] } else { g.0.iter().map(|b| match b { Bound::Included(x) => Some(*x), Bound::Excluded(x) => x.checked_add(1), Bound::Unbounded => Some(0) }).collect() };
    let es: Vec<Option<usize>> = g.1.iter().map(|b| match b { Bound::Included(x) => x.checked_add(1), Bound::Excluded(x) => Some(*x), Bound::Unbounded => Some(len) }).collect();
    let mut out = vec![];
    for s in ss.iter().flatten() { for e in es.iter().flatten() { if s <= e && *e <= len { out.push((*s, *e)); } } }
    out
}
fn show(fr: &FlipRange) -> String { format!("start answers {:?}, end answers {:?}", fr.starts, fr.ends) }

fn scripts(len: usize, rng: &mut Rng, n: usize) -> Vec<FlipRange> {
    let vals = [0usize, 1, 5, len / 2, len.saturating_sub(1), len, len + 1, len + 48, usize::MAX];
    let mut out = vec![];
    // hand-written: valid at the first query, out of range at the second (and the converse)
    for (a, b) in [(len, len + 48), (len, usize::MAX), (len / 2, len + 1), (len + 48, len)] {
        out.push(FlipRange::new(vec![Bound::Included(0)], vec![Bound::Excluded(a), Bound::Excluded(b)]));
        out.push(FlipRange::new(vec![Bound::Included(0), Bound::Included(0)], vec![Bound::Included(a.saturating_sub(1)), Bound::Included(b.saturating_sub(1))]));
        out.push(FlipRange::new(vec![Bound::Included(a.min(len)), Bound::Included(b)], vec![Bound::Unbounded]));
        out.push(FlipRange::new(vec![Bound::Included(1), Bound::Included(len)], vec![Bound::Excluded(a), Bound::Excluded(b), Bound::Excluded(1)]));
    }
    for _ in 0..n {
        let mk = |rng: &mut Rng| -> Vec<Bound<usize>> { (0..1 + rng.below(3)).map(|_| { let v = *rng.pick(&vals); match rng.below(5) { 0 => Bound::Unbounded, 1 | 2 => Bound::Included(v), _ => Bound::Excluded(v) } }).collect() };
        out.push(FlipRange::new(mk(rng), mk(rng)));
    }
    out
}

fn bad(sum: &mut Summary, what: String, observed: String, expected: &str) {
    sum.violation(format!("{{\"what\":{},\"observed\":{},\"expected\":{}}}", jstr(&what), jstr(&observed), jstr(expected)));
}

fn bytes_like<B: Backend>(sum: &mut Summary, bk: &str, rng: &mut Rng, n: usize) {
    let text: &'static str = "0123456789abcdefghijklmnopqrstuvwxyzABCDEFGHIJKLMNOPQRSTUVWXYZ";
    for (repr, lo, hi) in [("inline", 0usize, 12usize), ("borrowed", 0, 40), ("heap", 0, 32), ("heap-view", 8, 40)] {
        let src_b: HipByt<'static, B> = match repr { "inline" => HipByt::from(&text.as_bytes()[lo..hi]), "borrowed" => HipByt::borrowed(&text.as_bytes()[lo..hi]), "heap" => HipByt::from(&text.as_bytes()[lo..hi]), _ => HipByt::<B>::from(text.as_bytes()).slice(lo..hi) };
        let src_s: HipStr<'static, B> = match repr { "inline" => HipStr::from(&text[lo..hi]), "borrowed" => HipStr::borrowed(&text[lo..hi]), "heap" => HipStr::from(&text[lo..hi]), _ => HipStr::<B>::from(text).slice(lo..hi) };
        let want = &text.as_bytes()[lo..hi];
        let len = want.len();
        for fr in scripts(len, rng, n) {
            for (ty, method) in [("byt", "try_slice"), ("byt", "slice"), ("str", "try_slice"), ("str", "slice")] {
                sum.evaluations += 1;
                fr.i.set(0); fr.j.set(0); *fr.given.borrow_mut() = (vec![], vec![]);
                let what = format!("adversary {}::{} on a {} value of {} bytes bk={} with bounds that change between queries: {} prof={}", if ty == "byt" { "HipByt" } else { "HipStr" }, method, repr, len, bk, show(&fr), profile());
                breadcrumb(&what);
                let r: Result<Option<Vec<u8>>, String> = quiet_catch(AssertUnwindSafe(|| match (ty, method) {
                    ("byt", "try_slice") => src_b.try_slice(&fr).ok().map(|h| h.as_slice().to_vec()),
                    ("byt", _) => Some(src_b.slice(&fr).as_slice().to_vec()),
                    ("str", "try_slice") => src_s.try_slice(&fr).ok().map(|h| h.as_bytes().to_vec()),
                    _ => Some(src_s.slice(&fr).as_bytes().to_vec()),
                }));
                match r {
                    Ok(Some(got)) => {
                        let ok = designated(&fr, len).iter().any(|&(a, b)| got == want[a..b]);
                        if !ok { bad(sum, what, format!("Ok({}) = {} bytes out of a {}-byte value; answers given: {:?}", hex(&got), got.len(), len, fr.given.borrow()), "an error, a panic, or the sub-range designated by answers the bounds gave"); }
                        sum.count("slice.ok");
                    }
                    Ok(None) => sum.count("slice.err"),
                    Err(_) => sum.count("slice.panic"),
                }
            }
        }
    }
}

fn vec_like(sum: &mut Summary, rng: &mut Rng, n: usize) {
    let items: Vec<String> = (0..6).map(|i| format!("element number {} (heap allocated)", i)).collect();
    for fr in scripts(items.len(), rng, n) {
        for kind in ["thin", "inline"] {
            for method in ["drain", "extend_from_within"] {
                sum.evaluations += 1;
                fr.i.set(0); fr.j.set(0); *fr.given.borrow_mut() = (vec![], vec![]);
                let what = format!("adversary {}::{} on 6 String elements with bounds that change between queries: {} prof={}", if kind == "thin" { "ThinVec" } else { "InlineVec<_, 16>" }, method, show(&fr), profile());
                breadcrumb(&what);
                // (drained, remaining)
                let r: Result<(Vec<String>, Vec<String>), String> = quiet_catch(AssertUnwindSafe(|| {
                    if kind == "thin" {
                        let mut v: ThinVec<String> = ThinVec::new(); for x in &items { v.push(x.clone()); }
                        let d: Vec<String> = if method == "drain" { v.drain(&fr).collect() } else { v.extend_from_within(&fr); vec![] };
                        (d, v.as_slice().to_vec())
                    } else {
                        let mut v: InlineVec<String, 16> = InlineVec::new(); for x in &items { v.push(x.clone()); }
                        let d: Vec<String> = if method == "drain" { v.drain(&fr).collect() } else { v.extend_from_within(&fr); vec![] };
                        (d, v.as_slice().to_vec())
                    }
                }));
                if let Ok((d, rest)) = r {
                    let ok = designated(&fr, items.len()).iter().any(|&(a, b)| if method == "drain" { d == items[a..b] && rest == [&items[..a], &items[b..]].concat() } else { rest == [&items[..], &items[a..b]].concat() });
                    if !ok { bad(sum, what, format!("drained {:?}, vector now {:?}; answers given: {:?}", d, rest, fr.given.borrow()), "an error, a panic, or the effect of the sub-range designated by answers the bounds gave"); }
                    sum.count("vec.ok");
                } else { sum.count("vec.panic"); }
            }
        }
    }
}

/// safe functions with extreme (type-correct) size arguments: the outcome is std's outcome -- a panic ("capacity overflow",
/// index out of bounds) or a value -- never a wrapped size.  Matters most in release builds, where arithmetic wraps silently.
fn extreme_args<B: Backend>(sum: &mut Summary, bk: &str) {
    let text: &'static str = "0123456789abcdefghijklmnopqrstuvwxyzABCDEFGHIJKLMNOPQRSTUVWXYZ";
    macro_rules! same { ($what:expr, $hip:expr, $std:expr) => {{
        sum.evaluations += 1;
        let what = format!("adversary extreme argument: {} bk={} prof={}", $what, bk, profile());
        breadcrumb(&what);
        let a: Result<Vec<u8>, String> = quiet_catch(AssertUnwindSafe(|| $hip));
        let b: Result<Vec<u8>, String> = quiet_catch(AssertUnwindSafe(|| $std));
        match (&a, &b) { (Ok(x), Ok(y)) if x == y => {}, (Err(_), Err(_)) => {}, _ => bad(sum, what, format!("{:?}", a.as_ref().map(|x| hex(x)).map_err(|_| "panic")), &format!("{:?}", b.as_ref().map(|x| hex(x)).map_err(|_| "panic"))) }
    }}; }
    for (repr, lo, hi) in [("inline", 0usize, 2usize), ("inline", 0, 12), ("borrowed", 0, 32), ("heap", 0, 32), ("heap-view", 8, 40)] {
        let mk_b = || -> HipByt<'static, B> { match repr { "inline" => HipByt::from(&text.as_bytes()[lo..hi]), "borrowed" => HipByt::borrowed(&text.as_bytes()[lo..hi]), "heap" => HipByt::from(&text.as_bytes()[lo..hi]), _ => HipByt::<B>::from(text.as_bytes()).slice(lo..hi) } };
        let mk_s = || -> HipStr<'static, B> { match repr { "inline" => HipStr::from(&text[lo..hi]), "borrowed" => HipStr::borrowed(&text[lo..hi]), "heap" => HipStr::from(&text[lo..hi]), _ => HipStr::<B>::from(text).slice(lo..hi) } };
        let want = &text.as_bytes()[lo..hi]; let len = want.len();
        for n in [usize::MAX, 1usize << 63, 1usize << 59, (1usize << 59) + 1, usize::MAX / len + 1, usize::MAX / len, (isize::MAX as usize) / len + 1] {
            // only products beyond isize::MAX (or wrapping): std panics with "capacity overflow" before asking the allocator
            if len.checked_mul(n).map_or(false, |t| t <= isize::MAX as usize) { continue; }
            same!(format!("HipByt::repeat({}) on a {} value of {} bytes", n, repr, len), mk_b().repeat(n).as_slice().to_vec(), want.repeat(n));
            same!(format!("HipStr::repeat({}) on a {} value of {} bytes", n, repr, len), mk_s().repeat(n).as_bytes().to_vec(), std::str::from_utf8(want).unwrap().repeat(n).into_bytes());
        }
        for n in [usize::MAX, isize::MAX as usize + 1, usize::MAX - 7] {
            same!(format!("HipByt::truncate({}) on a {} value", n, repr), { let mut h = mk_b(); h.truncate(n); h.as_slice().to_vec() }, { let mut v = want.to_vec(); v.truncate(n); v });
            same!(format!("HipByt::shrink_to({}) on a {} value", n, repr), { let mut h = mk_b(); h.shrink_to(n); h.as_slice().to_vec() }, { let mut v = want.to_vec(); v.shrink_to(n); v });
            same!(format!("HipByt mutate().reserve({}) on a {} value", n, repr), { let mut h = mk_b(); h.mutate().reserve(n); h.as_slice().to_vec() }, { let mut v = want.to_vec(); v.reserve(n); v });
        }
    }
    for n in [usize::MAX, isize::MAX as usize + 1] {
        same!(format!("HipByt::with_capacity({})", n), HipByt::<B>::with_capacity(n).as_slice().to_vec(), Vec::<u8>::with_capacity(n));
        same!(format!("HipStr::with_capacity({})", n), HipStr::<B>::with_capacity(n).as_bytes().to_vec(), String::with_capacity(n).into_bytes());
    }
    // vectors: indices and sizes next to usize::MAX
    let items: Vec<u8> = (1..=6).collect();
    for n in [usize::MAX, usize::MAX - 1, isize::MAX as usize + 1, 7] {
        same!(format!("ThinVec::insert({}, x) on 6 elements", n), { let mut v: ThinVec<u8> = ThinVec::new(); for x in &items { v.push(*x); } v.insert(n, 9); v.as_slice().to_vec() }, { let mut v = items.clone(); v.insert(n, 9); v });
        same!(format!("ThinVec::remove({}) on 6 elements", n), { let mut v: ThinVec<u8> = ThinVec::new(); for x in &items { v.push(*x); } v.remove(n); v.as_slice().to_vec() }, { let mut v = items.clone(); v.remove(n); v });
        same!(format!("ThinVec::swap_remove({}) on 6 elements", n), { let mut v: ThinVec<u8> = ThinVec::new(); for x in &items { v.push(*x); } v.swap_remove(n); v.as_slice().to_vec() }, { let mut v = items.clone(); v.swap_remove(n); v });
        same!(format!("ThinVec::split_off({}) on 6 elements", n), { let mut v: ThinVec<u8> = ThinVec::new(); for x in &items { v.push(*x); } let w = v.split_off(n); w.as_slice().to_vec() }, { let mut v = items.clone(); v.split_off(n) });
        same!(format!("ThinVec::truncate({}) on 6 elements", n), { let mut v: ThinVec<u8> = ThinVec::new(); for x in &items { v.push(*x); } v.truncate(n); v.as_slice().to_vec() }, { let mut v = items.clone(); v.truncate(n); v });
        same!(format!("InlineVec::insert({}, x) on 6 elements", n), { let mut v: InlineVec<u8, 16> = InlineVec::new(); for x in &items { v.push(*x); } v.insert(n, 9); v.as_slice().to_vec() }, { let mut v = items.clone(); v.insert(n, 9); v });
        same!(format!("InlineVec::remove({}) on 6 elements", n), { let mut v: InlineVec<u8, 16> = InlineVec::new(); for x in &items { v.push(*x); } v.remove(n); v.as_slice().to_vec() }, { let mut v = items.clone(); v.remove(n); v });
        same!(format!("InlineVec::swap_remove({}) on 6 elements", n), { let mut v: InlineVec<u8, 16> = InlineVec::new(); for x in &items { v.push(*x); } v.swap_remove(n); v.as_slice().to_vec() }, { let mut v = items.clone(); v.swap_remove(n); v });
        same!(format!("InlineVec::split_off({}) on 6 elements", n), { let mut v: InlineVec<u8, 16> = InlineVec::new(); for x in &items { v.push(*x); } let w = v.split_off(n); w.as_slice().to_vec() }, { let mut v = items.clone(); v.split_off(n) });
        same!(format!("InlineVec::truncate({}) on 6 elements", n), { let mut v: InlineVec<u8, 16> = InlineVec::new(); for x in &items { v.push(*x); } v.truncate(n); v.as_slice().to_vec() }, { let mut v = items.clone(); v.truncate(n); v });
        same!(format!("ThinVec::reserve({}) on 6 elements", n), { let mut v: ThinVec<u8> = ThinVec::new(); for x in &items { v.push(*x); } if n > 100 { v.reserve(n); } v.as_slice().to_vec() }, { let mut v = items.clone(); if n > 100 { v.reserve(n); } v });
    }
}

pub fn run(_out_dir: &Path, tier: &str, seed: u64, _rest: &[String]) {
    silence_panics();
    let mut sum = Summary::default();
    let mut rng = Rng::new(seed ^ 0xAD7E);
    let n = if tier == "thorough" { 400 } else { 60 };
    bytes_like::<Arc>(&mut sum, "arc", &mut rng, n);
    bytes_like::<Rc>(&mut sum, "rc", &mut rng, n);
    bytes_like::<Unique>(&mut sum, "unique", &mut rng, n);
    vec_like(&mut sum, &mut rng, n);
    extreme_args::<Arc>(&mut sum, "arc"); extreme_args::<Rc>(&mut sum, "rc"); extreme_args::<Unique>(&mut sum, "unique");
    sum.nontrivial = sum.evaluations;
    sum.samples.push(jstr("RangeBounds implementations answering differently at each query x {HipByt, HipStr} x {slice, try_slice} x {inline, borrowed, heap, heap-view} x 3 backends; {ThinVec, InlineVec} x {drain, extend_from_within}"));
    sum.notes.push(format!("profile={} allocator_errors={}", profile(), crate::alloc::error_detail()));
    sum.print();
}
