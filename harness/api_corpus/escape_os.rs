// expect: reject
#![allow(unused)]
use hipstr::HipOsStr;
use std::ffi::OsString;
pub fn f() -> HipOsStr<'static> { let p = OsString::from("ab"); let h = HipOsStr::borrowed(p.as_os_str()); h.clone() }
