// expect: reject
// safe client code implementing the pattern trait and answering with a string of its own: HipStr::split would re-attach it to
// the (static) haystack with slice_ref_unchecked, and a HipStr<'static> would point into a local String
#![allow(unused)]
use hipstr::string::pattern::Pattern;
use hipstr::HipStr;
struct Smuggle<'x>(&'x str);
type Nothing = core::iter::Empty<&'static str>;
type NothingIdx = core::iter::Empty<(usize, &'static str)>;
impl<'x> Pattern for Smuggle<'x> {
    type Split<'a> = core::iter::Once<&'x str>;
    fn split(self, _haystack: &str) -> Self::Split<'_> { core::iter::once(self.0) }
    type SplitInclusive<'a> = Nothing;
    fn split_inclusive(self, _haystack: &str) -> Self::SplitInclusive<'_> { core::iter::empty() }
    type SplitTerminator<'a> = Nothing;
    fn split_terminator(self, _haystack: &str) -> Self::SplitTerminator<'_> { core::iter::empty() }
    type SplitN<'a> = Nothing;
    fn splitn(self, _n: usize, _haystack: &str) -> Self::SplitN<'_> { core::iter::empty() }
    fn split_once(self, _haystack: &str) -> Option<(&str, &str)> { None }
    type Matches<'a> = Nothing;
    fn matches(self, _haystack: &str) -> Self::Matches<'_> { core::iter::empty() }
    type MatchIndices<'a> = NothingIdx;
    fn match_indices(self, _haystack: &str) -> Self::MatchIndices<'_> { core::iter::empty() }
    fn trim_start_matches(self, s: &str) -> &str { s }
    fn strip_prefix(self, _haystack: &str) -> Option<&str> { None }
}
pub fn escape() -> HipStr<'static> {
    let anchor: HipStr<'static> = HipStr::borrowed("anchor");
    let local: String = String::from("local data: 0123456789 0123456789 0123456789");
    let smuggled: HipStr<'static> = anchor.split(Smuggle(&local)).next().unwrap();
    smuggled
}
