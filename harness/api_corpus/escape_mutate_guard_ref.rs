// expect: reject
// a reference obtained through the mutate guard must not survive the guard
#![allow(unused)]
use hipstr::HipStr;
pub fn f() -> usize { let mut h = HipStr::from("abc"); let r: &String = { let g = h.mutate(); &*g }; r.len() }
