// expect: accept
#![allow(unused)]
use hipstr::HipStr;
pub fn f() { let h = HipStr::from("a long enough string for the heap!!"); let c = h.clone(); std::thread::spawn(move || drop(c)); drop(h); }
