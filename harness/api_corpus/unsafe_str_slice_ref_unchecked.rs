// expect: reject
#![allow(unused)]
use hipstr::HipStr;
pub fn f(h: &HipStr, s: &str) -> HipStr<'static> { h.slice_ref_unchecked(s).into_owned() }
