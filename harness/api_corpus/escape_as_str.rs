// expect: reject
#![allow(unused)]
use hipstr::HipStr;
pub fn f() -> &'static str { let h = HipStr::from("abc"); h.as_str() }
