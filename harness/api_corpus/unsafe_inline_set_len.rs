// expect: reject
#![allow(unused)]
use hipstr::vecs::InlineVec;
pub fn f(v: &mut InlineVec<u8, 7>) { v.set_len(7) }
