// expect: accept
// Arc-backed values are Send and Sync independently of the borrow lifetime: a value borrowing a LOCAL string can be moved to, and
// shared with, scoped threads (all four types, their clones and slices)
#![allow(unused)]
use hipstr::{HipByt, HipOsStr, HipPath, HipStr};
pub fn f(text: &str, bytes: &[u8]) -> usize {
    let (s, b, o, p) = (HipStr::borrowed(text), HipByt::borrowed(bytes), HipOsStr::borrowed(text), HipPath::borrowed(text));
    let shared = HipStr::borrowed(text);
    std::thread::scope(|sc| {
        let r = &shared;
        let t1 = sc.spawn(move || s.len() + b.len());
        let t2 = sc.spawn(move || o.len() + p.as_os_str().len() + r.len());
        t1.join().unwrap() + t2.join().unwrap()
    })
}
pub fn g<'a>(h: HipStr<'a>) -> impl Send + 'a { h }
pub fn k<'a>(h: &'a HipByt<'a>) -> impl Send + 'a { h }
