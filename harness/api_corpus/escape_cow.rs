// expect: reject
#![allow(unused)]
use hipstr::HipStr;
use std::borrow::Cow;
pub fn f() -> HipStr<'static> { let s = String::from("abc"); let c: Cow<str> = Cow::Borrowed(s.as_str()); HipStr::from(c) }
