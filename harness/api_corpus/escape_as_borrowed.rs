// expect: reject
#![allow(unused)]
use hipstr::HipStr;
pub fn f() -> &'static str { let s = String::from("abc"); let h = HipStr::borrowed(s.as_str()); h.as_borrowed().unwrap() }
