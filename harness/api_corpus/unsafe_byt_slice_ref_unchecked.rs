// expect: reject
#![allow(unused)]
use hipstr::HipByt;
pub fn f(h: &HipByt, s: &[u8]) -> HipByt<'static> { h.slice_ref_unchecked(s).into_owned() }
