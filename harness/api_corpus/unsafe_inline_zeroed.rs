// expect: reject
#![allow(unused)]
use hipstr::vecs::InlineVec;
pub fn f() -> InlineVec<u8, 7> { InlineVec::zeroed(3) }
