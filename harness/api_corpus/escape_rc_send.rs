// expect: reject
#![allow(unused)]
use hipstr::LocalHipStr;
pub fn f() { let h = LocalHipStr::from("a long enough string for the heap!!"); let c = h.clone(); std::thread::spawn(move || drop(c)); drop(h); }
