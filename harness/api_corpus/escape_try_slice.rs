// expect: reject
#![allow(unused)]
use hipstr::HipByt;
pub fn f() -> HipByt<'static> { let v = vec![1u8, 2, 3]; let h = HipByt::borrowed(&v[..]); h.try_slice(0..1).unwrap() }
