// expect: reject
#![allow(unused)]
use hipstr::vecs::thin::ThinVec;
pub fn f(v: &mut ThinVec<u8>) { v.set_len(7) }
