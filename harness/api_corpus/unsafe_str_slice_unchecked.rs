// expect: reject
#![allow(unused)]
use hipstr::HipStr;
pub fn f(h: &HipStr) -> HipStr<'static> { h.slice_unchecked(0..100).into_owned() }
