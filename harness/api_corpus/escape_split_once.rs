// expect: reject
#![allow(unused)]
use hipstr::HipStr;
pub fn f() -> HipStr<'static> { let s = String::from("a=b"); let h = HipStr::borrowed(s.as_str()); h.split_once('=').unwrap().1 }
