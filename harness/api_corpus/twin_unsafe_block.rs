// expect: accept
#![allow(unused)]
use hipstr::HipByt;
pub fn f(h: &HipByt) -> HipByt<'static> { unsafe { h.slice_unchecked(0..0) }.into_owned() }
