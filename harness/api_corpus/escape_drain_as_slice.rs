// expect: reject
// the slice of the elements a Drain has not yielded yet must not survive the next call on the iterator (it would alias moved-out elements)
#![allow(unused)]
use hipstr::vecs::ThinVec;
pub fn f() -> usize {
    let mut v: ThinVec<String> = ThinVec::new();
    v.push("a".into()); v.push("b".into());
    let mut d = v.drain(..);
    let s = d.as_slice();
    let moved = d.next();
    s.len() + moved.map_or(0, |m| m.len())
}
