// expect: reject
#![allow(unused)]
use hipstr::HipStr;
pub fn f() { let mut h = HipStr::from("abc"); let g = h.mutate(); drop(h); drop(g); }
