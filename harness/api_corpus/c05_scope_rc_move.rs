// expect: reject
// send: an Rc-backed value cannot be moved to another thread, whatever its lifetime
#![allow(unused)]
use hipstr::LocalHipStr;
pub fn f(text: &str) -> usize { let s = LocalHipStr::borrowed(text); std::thread::scope(|sc| sc.spawn(move || s.len()).join().unwrap()) }
