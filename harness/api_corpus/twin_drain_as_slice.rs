// expect: accept
#![allow(unused)]
use hipstr::vecs::ThinVec;
pub fn f() -> usize {
    let mut v: ThinVec<String> = ThinVec::new();
    v.push("a".into()); v.push("b".into());
    let mut d = v.drain(..);
    let n = d.as_slice().len();
    let moved = d.next();
    n + moved.map_or(0, |m| m.len())
}
