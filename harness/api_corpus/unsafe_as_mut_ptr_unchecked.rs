// expect: reject
#![allow(unused)]
use hipstr::HipStr;
pub fn f(h: &mut HipStr) -> *mut u8 { h.as_mut_ptr_unchecked() }
