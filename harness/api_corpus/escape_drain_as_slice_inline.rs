// expect: reject
#![allow(unused)]
use hipstr::vecs::InlineVec;
pub fn f() -> String {
    let mut v: InlineVec<String, 4> = InlineVec::new();
    v.push("a".into()); v.push("b".into());
    let s: &[String] = { let d = v.drain(..); d.as_slice() };
    s[0].clone()
}
