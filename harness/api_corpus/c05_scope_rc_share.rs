// expect: reject
// send: an Rc-backed value cannot be shared with another thread (a reference to it is not Send)
#![allow(unused)]
use hipstr::LocalHipStr;
pub fn f(text: &str) -> usize { let s = LocalHipStr::borrowed(text); std::thread::scope(|sc| { let r = &s; sc.spawn(move || r.len()).join().unwrap() }) }
