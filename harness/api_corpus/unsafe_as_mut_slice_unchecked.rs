// expect: reject
#![allow(unused)]
use hipstr::HipByt;
pub fn f(h: &mut HipByt) { h.as_mut_slice_unchecked()[0] = 1 }
