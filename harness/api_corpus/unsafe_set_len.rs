// expect: reject
#![allow(unused)]
use hipstr::HipByt;
pub fn f(h: &mut HipByt) { h.set_len(1000) }
