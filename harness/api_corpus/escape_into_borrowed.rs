// expect: reject
#![allow(unused)]
use hipstr::HipByt;
pub fn f() -> &'static [u8] { let v = vec![1u8]; let h = HipByt::borrowed(&v[..]); h.into_borrowed().ok().unwrap() }
