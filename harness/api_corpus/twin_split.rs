// expect: accept
#![allow(unused)]
use hipstr::HipStr;
pub fn f() -> Vec<HipStr<'static>> { let s = String::from("a,b"); let h = HipStr::borrowed(s.as_str()); h.split(',').map(|p| p.into_owned()).collect() }
