// expect: reject
// a sealed trait (its supertrait cannot be named outside the crate): an implementation in client code must be rejected
#![allow(unused)]
struct Mine;
impl hipstr::Backend for Mine {}
