// expect: accept
#![allow(unused)]
use hipstr::HipStr;
pub fn f() -> HipStr<'static> { let s = String::from("a long enough string for the heap"); let h = HipStr::borrowed(s.as_str()); h.clone().into_owned() }
