// expect: reject
#![allow(unused)]
use hipstr::HipByt;
pub fn f() -> HipByt<'static> { let v = vec![1u8, 2, 3]; let h = HipByt::borrowed(&v[..]); let r = h.slice_ref(&h.as_slice()[1..]); r }
