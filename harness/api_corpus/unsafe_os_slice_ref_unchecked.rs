// expect: reject
#![allow(unused)]
use hipstr::HipOsStr;
use std::ffi::OsStr;
pub fn f(h: &HipOsStr, s: &OsStr) -> HipOsStr<'static> { h.slice_ref_unchecked(s).into_owned() }
