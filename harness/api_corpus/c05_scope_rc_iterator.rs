// expect: reject
// send: the iterators over an Rc-backed string hold a reference to it
#![allow(unused)]
use hipstr::LocalHipStr;
pub fn f() -> usize { let s = LocalHipStr::from("a,b,c and a tail long enough for the heap"); let it = s.split(','); std::thread::scope(|sc| sc.spawn(move || it.count()).join().unwrap()) }
