// expect: accept
#![allow(unused)]
use hipstr::HipStr;
pub fn f() -> HipStr<'static> { let s = String::from("abc"); let h = HipStr::borrowed(s.as_str()); h.slice(0..1).into_owned() }
