// expect: accept
#![allow(unused)]
use hipstr::HipStr;
pub fn f() -> HipStr<'static> { let h = HipStr::from_static("abc"); h.slice(1..) }
