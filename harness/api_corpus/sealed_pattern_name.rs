// expect: reject
// the pattern traits are trusted by the unchecked adoption of their `&str` results: client code must not be able to name them
#![allow(unused)]
use hipstr::string::pattern::Pattern;
pub fn f<P: Pattern>(p: P) {}
