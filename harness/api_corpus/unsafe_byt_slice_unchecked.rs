// expect: reject
#![allow(unused)]
use hipstr::HipByt;
pub fn f(h: &HipByt) -> HipByt<'static> { h.slice_unchecked(0..100).into_owned() }
