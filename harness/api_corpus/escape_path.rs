// expect: reject
#![allow(unused)]
use hipstr::HipPath;
use std::path::PathBuf;
pub fn f() -> HipPath<'static> { let p = PathBuf::from("/a/b"); let h = HipPath::borrowed(p.as_path()); h.clone() }
