// expect: accept
#![allow(unused)]
use hipstr::string::HipStr;
use hipstr::bytes::HipByt;
use hipstr::Unique;
pub fn f(text: &str) -> usize {
    let s: HipStr<'_, Unique> = HipStr::borrowed(text);
    let b: HipByt<'_, Unique> = HipByt::borrowed(text.as_bytes());
    std::thread::scope(|sc| { let r = &b; let t = sc.spawn(move || s.len() + r.len()); t.join().unwrap() })
}
