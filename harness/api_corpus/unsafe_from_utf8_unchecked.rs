// expect: reject
#![allow(unused)]
use hipstr::{HipByt, HipStr};
pub fn f(b: HipByt<'static>) -> HipStr<'static> { HipStr::from_utf8_unchecked(b) }
