// expect: reject
// the str-API iterators borrow the source value: it cannot be mutated while one is alive
#![allow(unused)]
use hipstr::HipStr;
pub fn f() -> usize { let mut h = HipStr::from("a b"); let mut it = h.split(' '); h.push('x'); it.next().map_or(0, |p| p.len()) }
